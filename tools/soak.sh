#!/bin/bash
# Soak: run every check's quick tier under other VERIF_SEED values, writing evidence/replays to a
# scratch directory (not /verif), and report any non-zero exit. Usage: tools/soak.sh <first> <last> [threads]
OUT=$(mktemp -d /tmp/wiresim-soak.XXXXXX)
cp /verif/known_findings.json "$OUT/" 2>/dev/null
T=${3:-8}
# rebuild against the clean /repo first: the shared target may hold a binary built from a patched tree
if [ -n "$(git -C /repo status --porcelain)" ]; then echo "refusing: /repo has uncommitted changes"; exit 2; fi
(cd /verif/sim && CARGO_TARGET_DIR=/verif/target cargo build --release --offline >/dev/null 2>&1) || { echo "build failed"; exit 2; }
# private copy of the binary: other tools (mutants.py / seeded.py) rebuild /verif/target against a patched /repo
cp /verif/target/release/wiresim "$OUT/wiresim"
bad=0
for seed in $(seq "${1:-2}" "${2:-5}"); do
  for p in C01 C02 C03 C06 C07 C08 C09 C10 C16; do
    WIRESIM_VERIF_DIR="$OUT" "$OUT/wiresim" run $p --seed $seed --threads $T --det 200 > "$OUT/log" 2>&1
    rc=$?
    echo "seed=$seed $p rc=$rc $(tail -1 "$OUT/log" | cut -c1-140)"
    if [ $rc -ne 0 ]; then bad=1; cat "$OUT/log" | head -20; cp -r "$OUT/replays" /tmp/soak-replays-$seed-$p 2>/dev/null; fi
  done
done
rm -rf "$OUT"
echo "soak done bad=$bad"
