#!/usr/bin/env python3
"""Sensitivity harness: apply each realistic one-line mutation to /repo (reverted straight
afterwards with `git checkout -- .`), require that the baseline test-suite still compiles and
passes (otherwise the mutant is not a 'silent' breakage), run the owning check and require it
to exit 1 with a VIOLATION line. Usage: tools/mutants.py [id-prefix ...] [--no-tests]"""
import subprocess, sys, time, json, os

R = "/repo/src/"
M = [
 # id, property, file, old, new, what
 ("c01-odd-cipher-list", "C01", "tls_handshake.rs", "if len % 2 == 1 || len > i.len() {\n        return Err(Err::Error(make_error(i, ErrorKind::LengthValue)));\n    }\n    let v = (i[..len])\n        .chunks(2)\n        .map(|chunk| TlsCipherSuiteID(", "if len > i.len() {\n        return Err(Err::Error(make_error(i, ErrorKind::LengthValue)));\n    }\n    let v = (i[..len])\n        .chunks(2)\n        .map(|chunk| TlsCipherSuiteID(", "drop the odd-length guard of the cipher list (chunk[1] out of bounds)"),
 ("c01-cert-with-capacity", "C01", "tls_handshake.rs", "    let (i, cert_chain) = map_parser(take(cert_len as usize), parse_certs)(i)?;", "    let _reserve: Vec<u8> = Vec::with_capacity(cert_len as usize);\n    let (i, cert_chain) = map_parser(take(cert_len as usize), parse_certs)(i)?;", "allocate by the declared 24-bit certificate list length"),
 ("c01-ticket-len-guard", "C01", "tls_handshake.rs", "    if len < 4 {\n        return Err(Err::Error(make_error(i, ErrorKind::Verify)));\n    }\n    let (i, ticket_lifetime_hint)", "    let (i, ticket_lifetime_hint)", "drop the len < 4 guard of NewSessionTicket (len - 4 underflows)"),
 ("c02-cap-off-by-one", "C02", "tls_record.rs", "    let (i, hdr) = parse_tls_record_header(i)?;\n    if hdr.len > MAX_RECORD_LEN {\n        return Err(Err::Error(make_error(i, ErrorKind::TooLarge)));\n    }\n    let (i, data) = take(hdr.len as usize)(i)?;", "    let (i, hdr) = parse_tls_record_header(i)?;\n    if hdr.len >= MAX_RECORD_LEN {\n        return Err(Err::Error(make_error(i, ErrorKind::TooLarge)));\n    }\n    let (i, data) = take(hdr.len as usize)(i)?;", "> becomes >= in the raw-record cap check (16640 rejected)"),
 ("c02-cap-after-take", "C02", "tls_record.rs", "    if hdr.len > MAX_RECORD_LEN {\n        return Err(Err::Error(make_error(i, ErrorKind::TooLarge)));\n    }\n    let (i, blob) = take(hdr.len as usize)(i)?;", "    let (i, blob) = take(hdr.len as usize)(i)?;\n    if hdr.len > MAX_RECORD_LEN {\n        return Err(Err::Error(make_error(i, ErrorKind::TooLarge)));\n    }", "cap check of parse_tls_encrypted moved after take (oversize answers Incomplete first)"),
 ("c02-complete-take", "C02", "tls_record.rs", "    let (i, data) = take(hdr.len as usize)(i)?;", "    let (i, data) = complete(take(hdr.len as usize))(i)?;", "complete(take(..)) in parse_tls_raw_record: a prefix answers an error instead of Incomplete"),
 ("c02-cap-constant", "C02", "tls_record.rs", "pub const MAX_RECORD_LEN: u16 = (1 << 14) + 256;", "pub const MAX_RECORD_LEN: u16 = (1 << 14) + 255;", "cap constant off by one"),
 ("c03-ccs-tag", "C03", "tls_message.rs", "verify(be_u8, |&tag| tag == 0x01)(i)?;\n    Ok((i, TlsMessage::ChangeCipherSpec))", "verify(be_u8, |&tag| tag != 0x00)(i)?;\n    Ok((i, TlsMessage::ChangeCipherSpec))", "ChangeCipherSpec accepts any non-zero byte"),
 ("c03-alert-no-complete", "C03", "tls_record.rs", "        TlsRecordType::Alert            => many1(complete(parse_tls_message_alert))(i),", "        TlsRecordType::Alert            => many1(parse_tls_message_alert)(i),", "drop complete() on alerts: a trailing odd byte makes the whole record Incomplete"),
 ("c03-hs-len-u16", "C03", "tls_handshake.rs", "    let (i, raw_msg) = take(hl)(i)?;\n    let (_, msg) = match TlsHandshakeType(ht) {", "    let (i, raw_msg) = take(hl & 0xffff)(i)?;\n    let (_, msg) = match TlsHandshakeType(ht) {", "handshake length truncated to 16 bits"),
 ("c06-finished-reads-next", "C06", "tls_handshake.rs", "        TlsHandshakeType::Finished => parse_tls_handshake_msg_finished(raw_msg, hl as usize),", "        TlsHandshakeType::Finished => parse_tls_handshake_msg_finished(i, hl as usize),", "Finished body taken from the bytes FOLLOWING the message instead of the message"),
 ("c06-ext-copy", "C06", "tls_extensions.rs", "    map(take(ext_len), TlsExtension::Cookie)(i)", "    map(take(ext_len), |c: &[u8]| TlsExtension::Cookie(if c.len() == 7 { &b\"7seven7\"[..] } else { c }))(i)", "cookie extension of 7 bytes returns a slice that does not alias the input"),
 ("c06-sct-overread", "C06", "certificate_transparency.rs", "    map_parser(\n        length_data(be_u16),\n        parse_ct_signed_certificate_timestamp_content,\n    )(i)", "    let (_, l) = be_u16(i)?;\n    let (i, _) = take(2usize)(i)?;\n    let (r, v) = parse_ct_signed_certificate_timestamp_content(i)?;\n    let _ = l;\n    Ok((r, v))", "SCT entry content parser no longer confined to its declared length"),
 ("c06-dtls-fragment-overread", "C06", "dtls.rs", "    let (i, raw_msg) = take(fragment_length)(i)?;", "    let (i2, raw_msg) = take(fragment_length)(i)?;\n    let raw_msg = if is_server_done(msg_type) { i } else { raw_msg };\n    let i = i2;", "DTLS ServerHelloDone body reads everything behind the message"),
 ("c07-cap-gt", "C07", "tls_records_parser.rs", "            >= MAX_RECORD_DATA", "            > MAX_RECORD_DATA + 16640", "defragmenter cap check loosened (buffer may reach 10 MiB)"),
 ("c07-no-clear", "C07", "tls_records_parser.rs", "            self.record_defrag_buffer.clear();\n", "", "buffer not cleared when a new defragmentation starts (stale bytes)"),
 ("c07-type-not-cleared", "C07", "tls_records_parser.rs", "                // set current_record_type to None, but keep buffer (remaining bytes)\n                self.current_record_type = None;\n", "", "defragmentation not ended after a completed message"),
 ("c07-error-not-ended", "C07", "tls_records_parser.rs", "            other => {\n                self.current_record_type = None;\n                other\n            }", "            other => other,", "defragmentation not ended when the completed payload is malformed (the defect fixed by 709c8b5)"),
 ("c07-append-before-check", "C07", "tls_records_parser.rs", "        let record_type = record.hdr.record_type;\n        if Some(record_type) != self.current_record_type {", "        let record_type = record.hdr.record_type;\n        if Some(record_type) != self.current_record_type && !record.data.is_empty() {", "an empty record of a foreign type is accepted into the fragment stream"),
 ("c07-nocopy-no-refuse", "C07", "tls_records_parser.rs", "        if self.defrag_in_progress() {\n            return Err(Err::Failure(Error::new(&[], ErrorKind::NonEmpty)));\n        }", "        if self.defrag_in_progress() && record.data.len() > 3 {\n            return Err(Err::Failure(Error::new(&[], ErrorKind::NonEmpty)));\n        }", "parse_record_nocopy does not refuse short records while defragmenting"),
 ("c07-reset-keeps-type", "C07", "tls_records_parser.rs", "        *self = Self::default();", "        self.record_defrag_buffer.clear();", "reset() forgets to end the defragmentation"),
 ("c08-direction-flag", "C08", "tls_states.rs", "(TlsState::ServerHello,      &TlsMessageHandshake::Certificate(_), false)       => Ok(TlsState::Certificate),", "(TlsState::ServerHello,      &TlsMessageHandshake::Certificate(_), _)       => Ok(TlsState::Certificate),", "server Certificate accepted from either direction"),
 ("c08-fatal-alert-stays", "C08", "tls_states.rs", "if a.severity == TlsAlertSeverity::Warning { Ok(s) } else { Ok(TlsState::Finished) }", "if a.severity == TlsAlertSeverity::Warning || a.code.0 == 0x5a { Ok(s) } else { Ok(TlsState::Finished) }", "a fatal user_canceled alert leaves the state unchanged (content dependence)"),
 ("c08-nst-any-dir", "C08", "tls_states.rs", "(TlsState::ClientChangeCipherSpec,    &TlsMessageHandshake::NewSessionTicket(_), false)  => Ok(TlsState::ClientChangeCipherSpec),", "(TlsState::ClientChangeCipherSpec,    &TlsMessageHandshake::NewSessionTicket(_), _)  => Ok(TlsState::ClientChangeCipherSpec),", "NewSessionTicket accepted from the client"),
 ("c09-cipher-len", "C09", "tls_serialize.rs", "be_u16(m.ciphers.len() as u16 * 2),", "be_u16(m.ciphers.len() as u16),", "cipher list length not doubled"),
 ("c09-u24-as-u16", "C09", "tls_serialize.rs", "        tuple((be_u24(len as u32), slice(buf)))(out)", "        tuple((be_u24(len as u16 as u32), slice(buf)))(out)", "handshake length truncated to 16 bits (only messages above 64 KiB)"),
 ("c09-no-ext-len", "C09", "tls_serialize.rs", "        None => be_u16(0)(out),", "        None => Ok(out),", "absent extension block emits nothing"),
 ("c09-sid-len", "C09", "tls_serialize.rs", "        Some(o) => be_u8(o.len() as u8)(out).and_then(slice(o)),", "        Some(o) => be_u8(if o.len() == 32 { 31 } else { o.len() as u8 })(out).and_then(slice(o)),", "32-byte session id announced as 31 bytes"),
 ("c10-epoch-shift", "C10", "dtls.rs", "let epoch = (int0 >> 48) as u16;", "let epoch = (int0 >> 47) as u16;", "epoch shift off by one bit"),
 ("c10-seq-mask", "C10", "dtls.rs", "let sequence_number = int0 & 0xffff_ffff_ffff;", "let sequence_number = int0 & 0xffff_ffff_fff;", "sequence number mask loses the top nibble"),
 ("c10-frag-predicate", "C10", "dtls.rs", "let is_fragment = fragment_offset > 0 || fragment_length < length;", "let is_fragment = fragment_offset > 0 || fragment_length + 1 < length;", "a message missing exactly its last byte is not recognised as a fragment"),
 ("c10-take-length", "C10", "dtls.rs", "    let (i, raw_msg) = take(fragment_length)(i)?;", "    let (i, raw_msg) = take(if fragment_offset > 0 { fragment_length } else { length })(i)?;", "first fragment body taken by total length instead of fragment length"),
 ("c10-cookie-u16", "C10", "dtls.rs", "    let (i, cookie) = length_data(be_u8)(i)?;\n    let (i, ciphers_len) = be_u16(i)?;", "    let (i, cookie) = length_data(be_u16)(i)?;\n    let (i, ciphers_len) = be_u16(i)?;", "DTLS ClientHello cookie length read as u16"),
 ("c10-cap", "C10", "dtls.rs", "    if header.length > MAX_RECORD_LEN {", "    if header.length > MAX_RECORD_LEN + 1 {", "DTLS cap off by one"),
 ("c16-many0", "C16", "tls_record.rs", "    many1(complete(parse_tls_plaintext))(i)", "    nom::multi::many0(complete(parse_tls_plaintext))(i)", "tls_parser_many succeeds with an empty list when the first record fails"),
 ("c16-no-complete", "C16", "tls_record.rs", "    many1(complete(parse_tls_plaintext))(i)", "    many1(parse_tls_plaintext)(i)", "tls_parser_many without complete(): a partial record behind n records makes everything Incomplete"),
 ("c16-alias", "C16", "tls_record.rs", "pub fn tls_parser(i: &[u8]) -> IResult<&[u8], TlsPlaintext> {\n    parse_tls_plaintext(i)", "pub fn tls_parser(i: &[u8]) -> IResult<&[u8], TlsPlaintext> {\n    parse_tls_plaintext(i).map(|(r, mut p)| { if p.msg.len() > 2 { p.msg.truncate(2); } (r, p) })", "deprecated alias drops messages beyond the second"),
 ("c16-dtls-many0", "C16", "dtls.rs", "    many1(complete(parse_dtls_plaintext_record))(i)", "    nom::multi::many0(complete(parse_dtls_plaintext_record))(i)", "DTLS many-parser succeeds with an empty list"),
]

def sh(cmd, **kw):
    return subprocess.run(cmd, shell=True, capture_output=True, text=True, **kw)

def main():
    args = [a for a in sys.argv[1:] if not a.startswith("--")]
    no_tests = "--no-tests" in sys.argv
    runs = {"C01": 60000, "C02": 60000, "C03": 60000, "C06": 150000, "C07": 150000, "C08": 200000, "C09": 150000, "C10": 150000, "C16": 80000}
    if sh("git -C /repo status --porcelain").stdout.strip():
        print("refusing: /repo has uncommitted changes"); sys.exit(2)
    results = []
    for (mid, prop, f, old, new, what) in M:
        if args and not any(mid.startswith(a) for a in args):
            continue
        path = R + f
        src = open(path).read()
        if "is_server_done" in new:
            new2 = new
            src = src  # helper added below
        if src.count(old) != 1:
            results.append((mid, prop, "PATTERN-NOT-FOUND(%d)" % src.count(old), 0, what)); print(results[-1]); continue
        mutated = src.replace(old, new, 1)
        if "is_server_done" in new:
            mutated += "\nfn is_server_done(t: TlsHandshakeType) -> bool { t == TlsHandshakeType::ServerDone }\n"
        open(path, "w").write(mutated)
        try:
            status = ""
            if not no_tests:
                t = sh("cd /repo && cargo test --offline 2>&1 | grep -E '^test result|^error' ")
                ok = "error" not in t.stdout and "FAILED" not in t.stdout and t.stdout.count("test result: ok") >= 6
                if not ok:
                    status = "TESTS-FAIL-OR-NO-COMPILE"
            t0 = time.time()
            if not status:
                r = sh("cd /verif && ./check %s --runs %d --det 0" % (prop, runs[prop]))
                sigs = [l.strip().split()[1] for l in r.stdout.splitlines() if l.strip().startswith("signature ")]
                if r.returncode == 1 and "VIOLATION property=%s" % prop in r.stdout:
                    status = "CAUGHT " + ",".join(sigs[:3])
                elif r.returncode == 0:
                    status = "MISSED"
                else:
                    status = "HARNESS-ERROR rc=%d %s" % (r.returncode, (r.stderr or r.stdout)[-300:].replace("\n", " | "))
            results.append((mid, prop, status, round(time.time() - t0, 1), what))
            print(results[-1], flush=True)
        finally:
            sh("git -C /repo checkout -- .")
    caught = sum(1 for r in results if r[2].startswith("CAUGHT"))
    print("\n%d/%d mutants caught" % (caught, len(results)))
    json.dump([dict(id=r[0], property=r[1], result=r[2], seconds=r[3], what=r[4]) for r in results], open("/verif/tools/mutants_last.json", "w"), indent=1)

if __name__ == "__main__":
    main()
