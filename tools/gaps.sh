#!/bin/bash
# Regression for the blind spots found by the sensitivity-gap review (DESIGN.md 11.5): each patch in
# tools/gap_patches/<ID>-<name>.diff breaks property <ID> and used to be missed; every one must now
# make ./check <ID> exit 1. Patches are applied to /repo and reverted straight afterwards.
# (These were written with knowledge of /verif, so they are regression material, not independent seeds.)
if [ -n "$(git -C /repo status --porcelain)" ]; then echo "refusing: /repo has uncommitted changes"; exit 2; fi
bad=0
# leave a binary built from the clean tree behind, whatever happens
trap "cd /verif/sim && cargo build --release --offline >/dev/null 2>&1" EXIT
for f in /verif/tools/gap_patches/*.diff; do
  b=$(basename "$f" .diff); p=${b%%-*}
  if git -C /repo apply "$f"; then
    /verif/check $p --det 0 > /tmp/gap.$$.log 2>&1; rc=$?
    git -C /repo checkout -- .
    echo "$b rc=$rc $(grep signature /tmp/gap.$$.log | head -2 | tr '\n' ' ')"
    [ $rc -ne 1 ] && bad=1
  else
    echo "$b does not apply"; bad=1
  fi
done
rm -f /tmp/gap.$$.log
echo "gaps done bad=$bad"
