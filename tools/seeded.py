#!/usr/bin/env python3
"""Run the registered checks against the seeded breakages kept under /verif/seeded/<id>/
(patch.diff + demo.rs + meta.json, written by independent sub-agents that never saw /verif).
For each: confirm the demonstration passes on the clean tree, apply the patch to /repo, confirm
the baseline suite still passes and the demonstration fails, run the owning check (must exit 1
with a VIOLATION line), and undo the patch straight afterwards (git -C /repo checkout -- .).
Usage: tools/seeded.py [id ...] [--skip-confirm] [--tier quick|thorough] [--runs N]"""
import json, os, subprocess, sys, time, glob

def sh(cmd):
    return subprocess.run(cmd, shell=True, capture_output=True, text=True)

def clean():
    sh("git -C /repo checkout -- . && rm -f /repo/tests/seeded_demo.rs")

def main():
    args = [a for a in sys.argv[1:] if not a.startswith("--")]
    skip = "--skip-confirm" in sys.argv
    runs = None
    if "--runs" in sys.argv:
        runs = sys.argv[sys.argv.index("--runs") + 1]
        args = [a for a in args if a != runs]
    if sh("git -C /repo status --porcelain").stdout.strip():
        print("refusing: /repo has uncommitted changes"); sys.exit(2)
    out = []
    for d in sorted(glob.glob("/verif/seeded/*/")):
        sid = os.path.basename(d.rstrip("/"))
        if args and sid not in args:
            continue
        if not os.path.exists(d + "meta.json"):
            continue
        meta = json.load(open(d + "meta.json"))
        prop = meta["property"]
        feat = "--features serialize" if prop == "C09" else ""
        res = {"id": sid, "property": prop}
        try:
            if not skip:
                sh("cp %sdemo.rs /repo/tests/seeded_demo.rs" % d)
                r = sh("cd /repo && cargo test --offline %s --test seeded_demo 2>&1 | tail -5" % feat)
                res["demo_passes_on_clean_tree"] = "test result: ok" in r.stdout
                sh("rm -f /repo/tests/seeded_demo.rs")
            a = sh("git -C /repo apply %spatch.diff" % d)
            if a.returncode != 0:
                res["error"] = "patch does not apply: " + a.stderr[-200:]
                out.append(res); print(res, flush=True); continue
            if not skip:
                r = sh("cd /repo && cargo test --offline 2>&1 | grep -E '^test result|^error'")
                res["baseline_passes_with_patch"] = "error" not in r.stdout and "FAILED" not in r.stdout and r.stdout.count("test result: ok") >= 6
                sh("cp %sdemo.rs /repo/tests/seeded_demo.rs" % d)
                r = sh("cd /repo && cargo test --offline %s --test seeded_demo 2>&1 | tail -5" % feat)
                res["demo_fails_with_patch"] = "test result: ok" not in r.stdout
                sh("rm -f /repo/tests/seeded_demo.rs")
            t0 = time.time()
            cmd = "cd /verif && ./check %s --det 0" % prop + (" --runs %s" % runs if runs else "")
            r = sh(cmd)
            sigs = [l.strip().split()[1] for l in r.stdout.splitlines() if l.strip().startswith("signature ")]
            res["check_exit"] = r.returncode
            res["caught"] = r.returncode == 1 and ("VIOLATION property=%s" % prop) in r.stdout
            res["signatures"] = sigs[:4]
            res["seconds"] = round(time.time() - t0, 1)
            if r.returncode not in (0, 1):
                res["error"] = (r.stderr or r.stdout)[-300:]
        finally:
            clean()
        out.append(res)
        print(res, flush=True)
    print("\n%d/%d seeded changes caught" % (sum(1 for r in out if r.get("caught")), len(out)))
    # merge into the cumulative results file (confirmation fields survive --skip-confirm runs)
    path = "/verif/seeded/results.json"
    try:
        old = {r["id"]: r for r in json.load(open(path))}
    except Exception:
        old = {}
    for r in out:
        merged = dict(old.get(r["id"], {}))
        merged.update(r)
        old[r["id"]] = merged
    json.dump([old[k] for k in sorted(old)], open(path, "w"), indent=1)

if __name__ == "__main__":
    main()
