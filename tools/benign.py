#!/usr/bin/env python3
"""Benign-change batch: property-respecting changes of the crate (refactorings, stricter or more
lenient handling of things the statements do not constrain). Each is applied to /repo (reverted
straight afterwards), must keep the baseline suite green, and must leave EVERY check silent
(exit 0). A check that alarms here demands more than its property states.
Usage: tools/benign.py [id-prefix ...] [--no-tests]"""
import subprocess, sys, time, json

R = "/repo/src/"
B = [
 # id, checks to run, file, old, new, what
 ("b-c07-clear-buffer-on-first-fragment", ["C07", "C06", "C01"], "tls_records_parser.rs",
  "        if !self.defrag_in_progress() {\n            // first fragment\n",
  "        if !self.defrag_in_progress() {\n            // first fragment\n            self.record_defrag_buffer.clear();\n",
  "clear the (idle) defragmentation buffer whenever a first fragment arrives"),
 ("b-c08-merge-equivalent-states", ["C08"], "tls_states.rs",
  "(TlsState::PskHelloDone,     &TlsMessageHandshake::ClientKeyExchange(_), true)  => Ok(TlsState::PskCKE),",
  "(TlsState::PskHelloDone,     &TlsMessageHandshake::ClientKeyExchange(_), true)  => Ok(TlsState::ClientKeyExchange),",
  "PskHelloDone + ClientKeyExchange lands in ClientKeyExchange (identical futures: accepted language unchanged)"),
 ("b-c02-cap-check-in-header-parser", ["C02", "C16", "C03", "C06"], "tls_record.rs",
  "pub fn parse_tls_record_header(i: &[u8]) -> IResult<&[u8], TlsRecordHeader> {\n    TlsRecordHeader::parse(i)\n}",
  "pub fn parse_tls_record_header(i: &[u8]) -> IResult<&[u8], TlsRecordHeader> {\n    let (r, hdr) = TlsRecordHeader::parse(i)?;\n    if hdr.len > MAX_RECORD_LEN {\n        return Err(Err::Error(make_error(r, ErrorKind::TooLarge)));\n    }\n    Ok((r, hdr))\n}",
  "the record-length cap is (also) enforced by the header-only parser"),
 ("b-c02-needed-hint-below-header", ["C02", "C16"], "tls_record.rs",
  "pub fn parse_tls_raw_record(i: &[u8]) -> IResult<&[u8], TlsRawRecord> {\n    let (i, hdr) = parse_tls_record_header(i)?;",
  "pub fn parse_tls_raw_record(i: &[u8]) -> IResult<&[u8], TlsRawRecord> {\n    if i.len() < 5 {\n        return Err(Err::Incomplete(nom::Needed::new(5)));\n    }\n    let (i, hdr) = parse_tls_record_header(i)?;",
  "below 5 bytes parse_tls_raw_record answers Incomplete(Needed 5) (a different, still allowed hint)"),
 ("b-c09-serialize-server-done", ["C09"], "tls_serialize.rs",
  "        TlsMessageHandshake::Finished(m) => gen_tls_finished(m)(out),\n        _ => Err(GenError::NotYetImplemented),",
  "        TlsMessageHandshake::Finished(m) => gen_tls_finished(m)(out),\n        TlsMessageHandshake::ServerDone(m) => tuple((be_u8(u8::from(TlsHandshakeType::ServerDone)), length_be_u24(slice(*m))))(out),\n        _ => Err(GenError::NotYetImplemented),",
  "the serializer learns ServerHelloDone"),
 ("b-c03-ticket-length-prefix", ["C03", "C06", "C08"], "tls_handshake.rs",
  "    let (i, ticket_lifetime_hint) = be_u32(i)?;\n    let (i, ticket) = take(len - 4)(i)?;",
  "    let (i, ticket_lifetime_hint) = be_u32(i)?;\n    let (i, ticket) = length_data(be_u16)(i)?;",
  "NewSessionTicket parsed per RFC 5077 (opaque ticket<0..2^16-1>: the value excludes its length prefix)"),
 ("b-c07-failure-for-tag", ["C07", "C06", "C01"], "tls_records_parser.rs",
  "            return Err(Err::Error(Error::new(&[], ErrorKind::Tag)));",
  "            return Err(Err::Failure(Error::new(&[], ErrorKind::Tag)));",
  "a foreign-type record is refused with Failure(Tag) instead of Error(Tag)"),
 ("b-c10-reject-bad-record-version", ["C10", "C16", "C06"], "dtls.rs",
  "    if header.length > MAX_RECORD_LEN {\n        return Err(Err::Error(make_error(i, ErrorKind::TooLarge)));\n    }\n    let (i, messages)",
  "    if header.length > MAX_RECORD_LEN {\n        return Err(Err::Error(make_error(i, ErrorKind::TooLarge)));\n    }\n    let (i, messages) = if !matches!(header.version.0, 0xfeff | 0xfefd | 0xfefc | 0x0100) {\n        let (i, _) = take(header.length as usize)(i)?;\n        return Err(Err::Error(make_error(i, ErrorKind::Tag)));\n    } else {\n        (i, ())\n    };\n    let _ = messages;\n    let (i, messages)",
  "DTLS records with a non-DTLS version are rejected (after framing)"),
 ("b-c01-scratch-preallocation", ["C01"], "tls_record.rs",
  "        TlsRecordType::Handshake        => many1(complete(parse_tls_message_handshake))(i),",
  "        TlsRecordType::Handshake        => { let _scratch: Vec<u8> = Vec::with_capacity(32 * 1024); many1(complete(parse_tls_message_handshake))(i) },",
  "a constant 32 KiB scratch allocation per handshake record (still a fixed linear bound)"),
 ("b-c01-two-vectors-in-dtls-ccs", ["C01", "C10"], "dtls.rs",
  "        TlsRecordType::ChangeCipherSpec => many1(complete(parse_dtls_message_changecipherspec))(i),",
  "        TlsRecordType::ChangeCipherSpec => many1(complete(parse_dtls_message_changecipherspec))(i).map(|(r, v)| { let mut w = Vec::with_capacity(v.len()); w.extend(v); (r, w) }),",
  "the DTLS ChangeCipherSpec arm moves its messages into a second vector (a steeper but still linear heap use)"),
 ("b-c01-reset-reserves", ["C01", "C07"], "tls_records_parser.rs",
  "        *self = Self::default();",
  "        *self = Self::default();\n        self.record_defrag_buffer.reserve(8 * 16640);",
  "reset() pre-reserves 130 KiB for the next defragmentation"),
 ("b-c09-sslv3-no-empty-block", ["C09"], "tls_serialize.rs",
  "            be_u16(m.cipher.0),\n            be_u8(m.compression.0),\n            maybe_extensions(&m.ext),",
  "            be_u16(m.cipher.0),\n            be_u8(m.compression.0),\n            move |out| if m.version.0 == 0x0300 && m.ext.is_none() { Ok(out) } else { maybe_extensions(&m.ext)(out) },",
  "an SSLv3 ServerHello without extensions is serialized without the empty extension block"),
 ("b-c10-needed-unknown", ["C10", "C16"], "dtls.rs",
  "    let (i, messages) = map_parser(take(header.length as usize), |i| {\n        parse_dtls_record_with_header(i, &header)\n    })(i)?;",
  "    if i.len() < header.length as usize {\n        return Err(Err::Incomplete(nom::Needed::Unknown));\n    }\n    let (i, messages) = map_parser(take(header.length as usize), |i| {\n        parse_dtls_record_with_header(i, &header)\n    })(i)?;",
  "a truncated DTLS record answers Incomplete(Unknown)"),
 ("b-c10-cap-error-kind", ["C10", "C16"], "dtls.rs",
  "    if header.length > MAX_RECORD_LEN {\n        return Err(Err::Error(make_error(i, ErrorKind::TooLarge)));",
  "    if header.length > MAX_RECORD_LEN {\n        return Err(Err::Error(make_error(i, ErrorKind::LengthValue)));",
  "the DTLS cap is reported with ErrorKind::LengthValue"),
 ("b-c10-client-hello-version-check", ["C10", "C06"], "dtls.rs",
  "fn parse_dtls_client_hello(i: &[u8]) -> IResult<&[u8], DTLSMessageHandshakeBody> {\n    let (i, version) = TlsVersion::parse(i)?;",
  "fn parse_dtls_client_hello(i: &[u8]) -> IResult<&[u8], DTLSMessageHandshakeBody> {\n    let (i, version) = verify(TlsVersion::parse, |v: &TlsVersion| (v.0 >> 8) == 0xfe || v.0 == 0x0100)(i)?;",
  "the DTLS ClientHello body parser validates its version field"),
 ("b-c08-empty-session-id-is-absent", ["C08"], "tls_states.rs",
  "                Some(_) => Ok(TlsState::AskResumeSession),",
  "                Some(id) if !id.is_empty() => Ok(TlsState::AskResumeSession),",
  "a ClientHello whose session id is Some(empty) counts as carrying no session id"),
 # ---- added after the third audit
 ("b-c03-reject-empty-certificate-entry", ["C03", "C10", "C06", "C08"], "tls_handshake.rs",
  "    many0(complete(map(length_data(be_u24), |data| RawCertificate {\n        data,\n    })))(i)",
  "    many0(complete(map(verify(length_data(be_u24), |d: &[u8]| !d.is_empty()), |data| RawCertificate {\n        data,\n    })))(i)",
  "a zero-length ASN.1Cert entry (RFC: opaque ASN.1Cert<1..2^24-1>) stops the certificate list"),
 ("b-c03-server-done-must-be-empty", ["C03", "C10", "C06", "C08"], "tls_handshake.rs",
  "    map(take(len), TlsMessageHandshake::ServerDone)(i)",
  "    if len != 0 {\n        return Err(Err::Error(make_error(i, ErrorKind::LengthValue)));\n    }\n    map(take(len), TlsMessageHandshake::ServerDone)(i)",
  "a ServerHelloDone with a body (RFC: struct { } ServerHelloDone) is rejected"),
 ("b-c07-truncated-alert-is-an-error", ["C07", "C01"], "tls_records_parser.rs",
  "                return self.parse_record_nocopy(record);\n            }\n\n            // before defragmenting",
  "                return parse_tls_record_with_header(record.data, &record.hdr);\n            }\n\n            // before defragmenting",
  "parse_record answers a truncated / empty alert or ChangeCipherSpec record with the record layer's error instead of Incomplete"),
 ("b-c09-heartbeat-serializer", ["C09"], "tls_serialize.rs",
  "        TlsMessage::ChangeCipherSpec => gen_tls_changecipherspec()(out),\n        _ => Err(GenError::NotYetImplemented),",
  "        TlsMessage::ChangeCipherSpec => gen_tls_changecipherspec()(out),\n        TlsMessage::Heartbeat(h) => tuple((be_u8(h.heartbeat_type.0), be_u16(h.payload_len), slice(h.payload), slice(&[0x5au8; 16][..])))(out),\n        _ => Err(GenError::NotYetImplemented),",
  "the serializer learns heartbeat messages and adds 16 bytes of padding of its own (RFC 6520 minimum)"),
 ("b-c08-ccs-after-cke-from-client-only", ["C08"], "tls_states.rs",
  "(TlsState::ClientKeyExchange,     &TlsMessage::ChangeCipherSpec, _) => Ok(TlsState::ClientChangeCipherSpec),",
  "(TlsState::ClientKeyExchange,     &TlsMessage::ChangeCipherSpec, true) => Ok(TlsState::ClientChangeCipherSpec),",
  "after ClientKeyExchange a ChangeCipherSpec is accepted from the client only (the direction clause of the statement is about handshake messages)"),
 ("b-c08-hello-request-from-server-only", ["C08"], "tls_states.rs",
  "        (s,                          &TlsMessageHandshake::HelloRequest, _)             => Ok(s),",
  "        (s,                          &TlsMessageHandshake::HelloRequest, false)         => Ok(s),",
  "a HelloRequest sent BY THE CLIENT is rejected ('each handshake message only from the peer that sends it' against 'ignored in every state except None')"),
 ("b-c03-client-hello-needs-a-cipher", ["C03", "C10", "C06"], "tls_handshake.rs",
  "    let (i, ciphers_len) = be_u16(i)?;",
  "    let (i, ciphers_len) = verify(be_u16, |&n| n >= 2)(i)?;",
  "a ClientHello offering no cipher suite (RFC: cipher_suites<2..2^16-2>) is rejected (C09, which quantifies over such hellos, is not run)"),
]

def sh(cmd):
    return subprocess.run(cmd, shell=True, capture_output=True, text=True)

def main():
    args = [a for a in sys.argv[1:] if not a.startswith("--")]
    no_tests = "--no-tests" in sys.argv
    if sh("git -C /repo status --porcelain").stdout.strip():
        print("refusing: /repo has uncommitted changes"); sys.exit(2)
    runs = {"C01": 60000, "C02": 200000, "C03": 200000, "C06": 300000, "C07": 400000, "C08": 600000, "C09": 600000, "C10": 150000, "C16": 100000}
    out = []
    for (bid, checks, f, old, new, what) in B:
        if args and not any(bid.startswith(a) for a in args):
            continue
        path = R + f
        src = open(path).read()
        if src.count(old) != 1:
            out.append((bid, "PATTERN-NOT-FOUND(%d)" % src.count(old))); print(out[-1]); continue
        open(path, "w").write(src.replace(old, new, 1))
        try:
            status = []
            if not no_tests:
                t = sh("cd /repo && cargo test --offline --features serialize 2>&1 | grep -E '^test result|^error' ")
                if "error" in t.stdout or "FAILED" in t.stdout or t.stdout.count("test result: ok") < 6:
                    status.append("BASELINE-FAILS")
            if not status:
                for c in checks:
                    r = sh("cd /verif && ./check %s --runs %d --det 0" % (c, runs[c]))
                    if r.returncode != 0:
                        sigs = [l.strip().split()[1] for l in r.stdout.splitlines() if l.strip().startswith("signature ")]
                        status.append("%s rc=%d %s %s" % (c, r.returncode, ",".join(sigs[:3]), (r.stderr or "")[-200:].replace("\n", " ")))
            out.append((bid, "SILENT" if not status else "ALARM " + " | ".join(status), what))
            print(out[-1], flush=True)
        finally:
            sh("git -C /repo checkout -- .")
    # benign changes kept as patch files (written by the audit reviewers): tools/benign_patches/<ID>-<name>.diff
    import glob, os
    EXTRA = {"C03": ["C03", "C10", "C06", "C08"], "C07": ["C07", "C01"], "C08": ["C08"], "C09": ["C09"], "C10": ["C10", "C16", "C06"]}
    for f in sorted(glob.glob("/verif/tools/benign_patches/*.diff")):
        bid = "p-" + os.path.basename(f)[:-5]
        if args and not any(bid.startswith(a) for a in args):
            continue
        owner = os.path.basename(f).split("-")[0]
        if sh("git -C /repo apply " + f).returncode != 0:
            out.append((bid, "DOES-NOT-APPLY", f)); print(out[-1]); continue
        try:
            status = []
            if not no_tests:
                t = sh("cd /repo && cargo test --offline --features serialize 2>&1 | grep -E '^test result|^error' ")
                if "error" in t.stdout or "FAILED" in t.stdout or t.stdout.count("test result: ok") < 6:
                    status.append("BASELINE-FAILS")
            if not status:
                for c in EXTRA.get(owner, [owner]):
                    r = sh("cd /verif && ./check %s --runs %d --det 0" % (c, runs[c]))
                    if r.returncode != 0:
                        sigs = [l.strip().split()[1] for l in r.stdout.splitlines() if l.strip().startswith("signature ")]
                        status.append("%s rc=%d %s" % (c, r.returncode, ",".join(sigs[:3])))
            out.append((bid, "SILENT" if not status else "ALARM " + " | ".join(status), "patch file " + os.path.basename(f)))
            print(out[-1], flush=True)
        finally:
            sh("git -C /repo checkout -- .")
    ok = sum(1 for o in out if o[1] == "SILENT")
    print("\n%d/%d benign changes leave all checks silent" % (ok, len(out)))
    json.dump([dict(id=o[0], result=o[1], what=o[2] if len(o) > 2 else "") for o in out], open("/verif/tools/benign_last.json", "w"), indent=1)

if __name__ == "__main__":
    main()
