# Table of claimed checks (edited as checks are built). Used by mkmanifest.py.
CLAIMED = {
 "C07": {
  "category": "exploration",
  "text": "Seeded search over operation histories {parse_record, parse_record_nocopy, reset} produced by a simulated record layer (arbitrary k-way splits, empty fragments, foreign-type interleaving, duplicates, oversize streams up to the 10 MiB bound, consumer resets) against one real TlsRecordsParser; every call is compared with an executable accumulate-then-parse reference model (result class, error kind, Needed, messages, remainder, defrag_in_progress, buffer length and content via the guarded hook, slice provenance), plus a history-level split-group oracle that is independent of the model's state tracking. The component is stateful and the property quantifies over call histories, which is what a simulator with a reference model decides; a clean batch is evidence from sampled histories, not a proof.",
  "design_ref": "DESIGN.md section 3 (C07)",
  "note": "Trusted base: the reference model (about 60 lines) delegates single-payload parsing to the real parse_tls_record_with_header, so C07 is checked as refinement of accumulation, not of payload decoding; heartbeat accumulations > 65535 bytes are unconstrained; the hook accessor verif_defrag_buffer is assumed to return the live buffer.",
  "technique": "deterministic simulation: seeded operation histories with fault injection, call-by-call refinement against an executable reference model",
 },
}
PENDING = {
 "C01": "claimed in DESIGN.md; check not built yet in this revision",
 "C02": "claimed in DESIGN.md; check not built yet in this revision",
 "C03": "claimed in DESIGN.md; check not built yet in this revision",
 "C06": "claimed in DESIGN.md; check not built yet in this revision",
 "C08": "claimed in DESIGN.md; check not built yet in this revision",
 "C09": "claimed in DESIGN.md; check not built yet in this revision",
 "C10": "claimed in DESIGN.md; check not built yet in this revision",
 "C16": "claimed in DESIGN.md; check not built yet in this revision",
}
