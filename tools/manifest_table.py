# Table of claimed checks (edited as checks are built). Used by mkmanifest.py.
CLAIMED = {
 "C01": {
  "category": "exploration",
  "text": "No-unwind (build with debug-assertions and overflow-checks), per-call heap meter and hang watchdog are evaluated as invariants of every call the simulated monitor makes in every world: well-formed and fault-perturbed TLS/DTLS traffic, a hostile channel (bit flips, byte drops and insertions, length lies in any field, truncation anywhere, garbage), a confused monitor that applies all 83 public parse functions plus Debug/Display formatting to every structure in flight at every delivery event, and TlsRecordsParser operation histories with all record-layer faults up to the 10 MiB bound. Relaxed oracle on purpose (any Ok/Err is fine). This samples corruptions of realistic traffic; it does not enumerate all byte strings and says so.",
  "design_ref": "DESIGN.md section 3 (C01)",
  "note": "Trusted base: counting GlobalAlloc and catch_unwind harness; heap bound A*len + 1 MiB with A = 16 x the largest returned element type, derived from the real types at run time; allocation failure not injected; watchdog uses the real clock only to declare a hang (120 s).",
  "technique": "deterministic simulation: all worlds + hostile channel + confused monitor, with no-panic / heap-meter / watchdog invariants on every call",
 },
 "C06": {
  "category": "exploration",
  "text": "'Appending arbitrary bytes changes nothing' is a relation between runs on b and b++x, and on a live stream x is whatever the network has already delivered behind the structure, which only the delivery schedule decides: an over-read is exactly a result that depends on the schedule. The check places each of the 16 self-delimiting structures in flight with seeded trailing data (including bytes that are valid structures themselves) and applies its parser at every delivery event (once Ok, the same value and consumption for every longer buffer; outcome class stable once the declared extent is buffered; remainder is the suffix by address; every slice reachable from the value inside the consumed region), re-parses every framed record of a stream on its exact extent / as buffered / with the whole rest behind it, and checks per-message containment against the sender's byte layout. Sampled structures and schedules: evidence, not proof.",
  "design_ref": "DESIGN.md section 3 (C06)",
  "note": "Trusted base: the slice walker must enumerate every &[u8] of every returned type (a new field added to the crate without updating visit.rs would not be audited); empty slices are exempt (no bytes); values are compared between runs of the same parser, never with sent values.",
  "technique": "deterministic simulation: eager taps under seeded delivery schedules with in-flight trailing data, schedule-independence of parsed values and pointer-provenance audit",
 },
 "C07": {
  "category": "exploration",
  "text": "Seeded search over operation histories {parse_record, parse_record_nocopy, reset} produced by a simulated record layer (arbitrary k-way splits incl. complete-but-malformed first messages, empty fragments and runs of hundreds of them, foreign-type interleaving, duplicates, oversize streams up to the 10 MiB bound, a ~10 MiB message that completes followed by a new split, consumer resets) against one real TlsRecordsParser; every call is compared with an executable accumulate-then-parse reference model (Ok / Incomplete / rejection with the stated ErrorKind, messages, remainder, defrag_in_progress, buffer length and content while a defragmentation is in progress when the guarded hook shows them, fast-path results referring to the caller's record), plus a history-level split-group oracle that is independent of the model's state tracking. The component is stateful and the property quantifies over call histories, which is what a simulator with a reference model decides; a clean batch is evidence from sampled histories, not a proof.",
  "design_ref": "DESIGN.md section 3 (C07)",
  "note": "Trusted base: the reference model (about 60 lines) delegates single-payload parsing to the real parse_tls_record_with_header, so C07 is checked as refinement of accumulation, not of payload decoding; heartbeat accumulations > 65535 bytes are unconstrained; the hook accessor verif_defrag_buffer is assumed to return the live buffer.",
  "technique": "deterministic simulation: seeded operation histories with fault injection, call-by-call refinement against an executable reference model",
 },
 "C02": {
  "category": "fault_enumeration",
  "text": "Every cut point of every sampled record stream: the simulated byte pipe delivers each stream under seeded segmentation schedules, of which the dribble and boundary-dribble schedules deliver one byte per event and thereby enumerate every prefix length 0..=5+len (with and without in-flight trailing bytes) of every record in the run; at each delivery event the three record parsers are compared with a ten-line reference framer (Incomplete iff strict prefix, exact Needed once the header is there, TooLarge above 2^14+256 whatever follows, verbatim header fields, payload and remainder by address) and a Needed-driven reader must emit every complete record. The property is a relation over all cut points of a stream, i.e. over what a delivery schedule chooses, so enumerating the schedule's fault points per sampled record is the right level; the records themselves (types, versions, lengths) are sampled with boundary bias.",
  "design_ref": "DESIGN.md section 3 (C02)",
  "note": "Trusted base: the reference framer; streams are sampled (all 256 content types and boundary lengths are biased, not exhausted); records of 16 KiB are enumerated only around their boundaries (boundary-dribble) in most runs.",
  "technique": "deterministic simulation: seeded byte-stream delivery schedules enumerating every cut point, reference-framer oracle at every delivery event, Needed-driven reader liveness",
 },
 "C03": {
  "category": "exploration",
  "text": "Seeded search over conversations and record-layer packing plans: which messages share a record is the sending record layer's choice, so the check simulates peers, a packing record layer and a byte pipe, and compares what the real one-step and two-step pipelines deliver with the sender's log (same count, same order, every field equal through an independent value walker, exactly-once over the whole history, two-step remainder by address, the raw step framing every record the one-step parser decodes - also just above the length cap), over RFC-valid field values with the inner structure real traffic carries one time in three, plus a malformed-peer batch of constructively malformed payloads whose verdict is certain. Sampled conversations: evidence, not proof.",
  "design_ref": "DESIGN.md section 3 (C03)",
  "note": "Trusted base: the reference encoder (abstract message -> bytes) and the value->abstract walker; field values are sampled with boundary bias; handshake bodies are compared only on well-formed encodings (rejection lists of C04 are not explored).",
  "technique": "deterministic simulation: seeded peers + record-layer packing + byte pipe, sent-log vs delivered-log oracle over one-step and two-step pipelines",
 },
 "C08": {
  "category": "exploration",
  "text": "tls_state_transition judges a two-party conversation seen by a passive third party, so the check simulates the peers (seeded walks through the documented flow grammar), the network to the tap (per-direction latency on a simulated clock, giving cross-direction skew) and a message-level fault layer (loss, duplication, reordering, direction flip, injection of any kind, alert/HelloRequest injection, mid-stream pickup in any of the 25 states), and compares every step of every history with a reference flow acceptor at the level the property is stated (accepted vs rejected with InvalidTransition, plus the named-state clauses; the real state value and the acceptor's state are tracked side by side, so a wrong landing state shows as soon as its future differs); because the comparison is per step from whatever state the history reached, each step decides one cell of the 25 x 2 x 23 relation, and the evidence reports how many of the 1150 cells were hit (all of them in the quick tier). Histories and message contents are sampled: evidence, not proof.",
  "design_ref": "DESIGN.md section 3 (C08)",
  "note": "Trusted base: the reference acceptor is a transcription of the documented flows and of the property statement by the same author as the harness (limited independence); message contents within a kind are sampled.",
  "technique": "deterministic simulation: seeded two-peer conversations with message-level fault injection, step-by-step agreement with a reference flow acceptor",
 },
 "C09": {
  "category": "exploration",
  "text": "The serializer is the one place where both ends of the wire are real code and where the crate meets an I/O trait: the check runs the real gen_* serializers as sending node writing through a simulated std::io::Write sink (short writes, zero writes, EINTR, hard errors at an arbitrary byte, fixed-size buffers) and the real parsers as receiving node, over seeded values within the wire limits. Fault-free sink: Ok, bytes equal to an independent reference encoder (which decides every emitted length field), parse-back consumes everything and yields the sent value modulo the documented normalisations, re-serialisation is stable, unsupported values answer NotYetImplemented. Faulty sink (narrow): the call may fail, but Ok implies the sink holds the complete fault-free encoding. Values are sampled: evidence, not proof.",
  "design_ref": "DESIGN.md section 3 (C09)",
  "note": "Trusted base: the reference encoder and the value walker; the serialize feature is built by this check (it is not in the 42-test baseline); cookie-factory is a real dependency, not modelled.",
  "technique": "deterministic simulation: real serializer -> fault-injecting Write sink -> real parser, byte oracle from a reference encoder, seeded sink fault positions",
 },
 "C10": {
  "category": "exploration",
  "text": "DTLS exists because datagrams are lost, duplicated, reordered and size-limited; fragmentation, several records per datagram and the header fields a reassembler needs are consequences of the transport. The check simulates a DTLS sender (flights, MTU fragmentation, retransmit timers on a simulated clock with MTU change), a faulty datagram network (loss, duplication, reordering, truncation at any byte) and a monitor running the real DTLS parsers on every delivered datagram. Per datagram: reference 13-byte framer (cap, exact consumption, Incomplete iff truncated inside the record), header and 12-byte handshake header fields verbatim against the sender's log, fragment predicate, fragment body by address, decoded bodies of the listed kinds (RFC-valid values), CCS/alert, record order, and a datagram made only of decodable records yields exactly those records from the many-record parser. End to end: a harness reassembler fed only with what the real parser returned must rebuild, byte-exact, every message all of whose bytes were delivered in fragments, and the rebuilt message must decode to the sent value. Conversations are sampled: evidence, not proof.",
  "design_ref": "DESIGN.md section 3 (C10)",
  "note": "Trusted base: reference encoder, 13-byte framer, sender log; the parser is stateless, so transport faults generate field combinations rather than parser states; unfragmented messages of unlisted kinds are unconstrained.",
  "technique": "deterministic simulation: DTLS sender with retransmit timers on a simulated clock + faulty datagram network, per-datagram sender-log oracle and end-to-end reassembly conservation",
 },
 "C16": {
  "category": "exploration",
  "text": "The argument of the many-parsers in a real reader is the receive buffer: n complete records followed by whatever the network has delivered so far. The simulated monitor applies tls_parser_many (and parse_dtls_plaintext_records on datagrams) to its buffer at every delivery event of seeded streams with truncation, oversize headers, length lies, garbage and corruption, and compares with an explicit loop over the single-record parser (list, remainder by address, fails iff the first record fails); tls_parser is compared with parse_tls_plaintext as full results on every buffer.",
  "design_ref": "DESIGN.md section 3 (C16)",
  "note": "Trusted base: the single-record parser is taken as the specification (relation between two real functions); buffers are sampled by the delivery schedule.",
  "technique": "deterministic simulation: receive-buffer states under seeded delivery/fault schedules, differential oracle against an explicit single-record loop",
 },
}
PENDING = {
}
