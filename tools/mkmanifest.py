#!/usr/bin/env python3
"""Regenerates /verif/MANIFEST.json from the table below and validates it against the schema."""
import json, subprocess, sys

CLAIMED = {
    # id: (level category, level text, level note, technique, design ref)
}
PENDING = {}   # id -> reason (claimed in DESIGN.md but check not built yet)

NOT_APPLICABLE = {
 "C04": "pure value law of one complete message handed to one call (decode(encode(v)) = v, rejection list): no delivery schedule, call history, clock or fault can change its truth, so a simulation would be seeded input generation in simulator vocabulary (DESIGN.md section 4)",
 "C05": "pure function of one extension block's bytes (dispatch by IANA type); no schedule, history or fault dimension (DESIGN.md section 4)",
 "C11": "per-field identity law over 256/65536-value integer domains; exhaustive enumeration is the right tool and is not simulation (DESIGN.md section 4)",
 "C12": "static build-time table compared with a text file; nothing executes over time (DESIGN.md section 4)",
 "C13": "pure value law of key-exchange/signature structures; only its self-delimitation clause has a delivery dimension and that is exercised under C06 (DESIGN.md section 4)",
 "C14": "pure value law of SCT lists; only its containment clause has a delivery dimension and that is exercised under C06 (DESIGN.md section 4)",
 "C15": "pure accessor law on one value; no schedule, history or fault (DESIGN.md section 4)",
 "C17": "static constant tables over integer domains; exhaustive enumeration, not simulation (DESIGN.md section 4)",
 "C18": "build-configuration matrix and compile-time Send/Sync; the crate has no synchronisation primitive, thread or task for a scheduler to interleave (DESIGN.md section 4)",
}

def main():
    sys.path.insert(0, '/verif/tools')
    from manifest_table import CLAIMED, PENDING
    checks = []
    for pid in sorted(CLAIMED):
        c = CLAIMED[pid]
        checks.append({
            "property_id": pid,
            "quick_cmd": f"./check {pid} --tier quick",
            "thorough_cmd": f"./check {pid} --tier thorough",
            "evidence_file": f"/verif/evidence/{pid}.json",
            "replay_cmd_template": f"./check {pid} --replay {{path}}",
            "engine": "wiresim",
            "level_claimed": {"category": c["category"], "text": c["text"], "design_ref": c["design_ref"]},
            "level_note": c["note"],
            "technique": c["technique"],
        })
    na = [{"property_id": k, "reason": v} for k, v in sorted({**NOT_APPLICABLE, **PENDING}.items())]
    m = {
        "version": 1,
        "setup_cmd": "cd /verif/sim && CARGO_NET_OFFLINE=true cargo build --release --offline",
        "hooks": {
            "guard": "--cfg tls_parser_verif",
            "enable": "RUSTFLAGS='--cfg tls_parser_verif' via /verif/sim/.cargo/config.toml; wiresim links /repo by path (features = [\"serialize\"]) with target dir /verif/target",
            "baseline_off_cmd": "cd /repo && cargo test --workspace --no-fail-fast --offline",
            "source_commits": subprocess.run(["git", "-C", "/repo", "log", "--format=%H", "--grep=^verif hook"], capture_output=True, text=True).stdout.split(),
            "add_only": True,
        },
        "engines": [{
            "name": "wiresim",
            "path": "/verif/sim",
            "serves_properties": sorted(CLAIMED),
            "kind_free_text": "deterministic discrete-event simulator with seeded fault injection around the real tls-parser code: Phase A (one PRNG from VERIF_SEED) generates an explicit scenario (messages, packing, segmentation/datagram schedule, faults, monitor operations); Phase B executes it against /repo with reference-model oracles; violations are minimised (ddmin) into replay files and re-verified in a fresh process",
        }],
        "checks": checks,
        "not_applicable": na,
        "notes": "Exit codes of every check: 0 held / known findings only, 1 new violation, 2 harness error. Known findings and fixed defects: /verif/known_findings.json. Design: /verif/DESIGN.md.",
    }
    open('/verif/MANIFEST.json', 'w').write(json.dumps(m, indent=1) + "\n")
    try:
        import jsonschema
        jsonschema.validate(m, json.load(open('/root/.vp/MANIFEST.schema.json')))
        print("MANIFEST.json valid:", len(checks), "checks,", len(na), "not applicable")
    except ImportError:
        print("MANIFEST.json written (jsonschema not importable in this python; run with python3-vt to validate)")

if __name__ == '__main__':
    main()
