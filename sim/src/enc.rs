//! Reference RFC encoder (stub side of the wire): abstract message Items -> bytes.
//! Written from the RFC 5246 / 6347 / 8446 / 6520 / 5077 / 6066 layouts, table-free, and
//! independent of the serializer under test (it also serves as byte oracle for C09).

use crate::item::Item;

pub fn put_u16(v: &mut Vec<u8>, x: u64) {
    v.extend_from_slice(&(x as u16).to_be_bytes());
}
pub fn put_u24(v: &mut Vec<u8>, x: u64) {
    v.extend_from_slice(&(x as u32).to_be_bytes()[1..]);
}
pub fn put_u32(v: &mut Vec<u8>, x: u64) {
    v.extend_from_slice(&(x as u32).to_be_bytes());
}
pub fn put_u48(v: &mut Vec<u8>, x: u64) {
    v.extend_from_slice(&x.to_be_bytes()[2..]);
}
pub fn put_u64(v: &mut Vec<u8>, x: u64) {
    v.extend_from_slice(&x.to_be_bytes());
}
pub fn vec8(v: &mut Vec<u8>, b: &[u8]) {
    v.push(b.len() as u8);
    v.extend_from_slice(b);
}
pub fn vec16(v: &mut Vec<u8>, b: &[u8]) {
    put_u16(v, b.len() as u64);
    v.extend_from_slice(b);
}
pub fn vec24(v: &mut Vec<u8>, b: &[u8]) {
    put_u24(v, b.len() as u64);
    v.extend_from_slice(b);
}

pub const HS_KINDS: &[(&str, u8)] = &[
    ("hello_request", 0),
    ("client_hello", 1),
    ("server_hello", 2),
    ("server_hello_d18", 2),
    ("new_session_ticket", 4),
    ("end_of_early_data", 5),
    ("hello_retry_request", 6),
    ("certificate", 11),
    ("server_key_exchange", 12),
    ("certificate_request", 13),
    ("server_done", 14),
    ("certificate_verify", 15),
    ("client_key_exchange", 16),
    ("finished", 20),
    ("certificate_status", 22),
    ("key_update", 24),
    ("next_protocol", 67),
];

pub fn hs_type(kind: &str) -> Option<u8> {
    HS_KINDS.iter().find(|(k, _)| *k == kind).map(|(_, t)| *t)
}

pub fn is_handshake(kind: &str) -> bool {
    hs_type(kind).is_some()
}

/// content type of the record that carries a message of this kind
pub fn content_type(kind: &str) -> u8 {
    match kind {
        "ccs" => 20,
        "alert" => 21,
        "appdata" => 23,
        "heartbeat" => 24,
        _ => 22,
    }
}

fn opt_ext(v: &mut Vec<u8>, m: &Item) {
    if let Some(e) = m.ob("ext") {
        vec16(v, e);
    }
}

/// handshake body (without the 4-byte header)
pub fn hs_body(m: &Item) -> Vec<u8> {
    let mut v = Vec::new();
    match m.kind.as_str() {
        "hello_request" | "end_of_early_data" => {}
        "client_hello" => {
            put_u16(&mut v, m.u("ver"));
            v.extend_from_slice(m.b("random"));
            vec8(&mut v, m.ob("sid").unwrap_or(&[]));
            vec16(&mut v, m.b("ciphers"));
            vec8(&mut v, m.b("comp"));
            opt_ext(&mut v, m);
        }
        "server_hello" => {
            put_u16(&mut v, m.u("ver"));
            v.extend_from_slice(m.b("random"));
            vec8(&mut v, m.ob("sid").unwrap_or(&[]));
            put_u16(&mut v, m.u("cipher"));
            v.push(m.u("comp") as u8);
            opt_ext(&mut v, m);
            v.extend_from_slice(m.b("_trail"));
        }
        "server_hello_d18" => {
            put_u16(&mut v, m.u("ver"));
            v.extend_from_slice(m.b("random"));
            put_u16(&mut v, m.u("cipher"));
            opt_ext(&mut v, m);
        }
        "new_session_ticket" => {
            put_u32(&mut v, m.u("hint"));
            v.extend_from_slice(m.b("ticket"));
        }
        "hello_retry_request" => {
            put_u16(&mut v, m.u("ver"));
            put_u16(&mut v, m.u("cipher"));
            opt_ext(&mut v, m);
        }
        "certificate" => {
            let mut l = Vec::new();
            for c in m.l("certs") {
                vec24(&mut l, c);
            }
            vec24(&mut v, &l);
        }
        "server_key_exchange" => v.extend_from_slice(m.b("params")),
        "certificate_request" => {
            vec8(&mut v, m.b("types"));
            if let Some(s) = m.ob("sigalgs") {
                vec16(&mut v, s);
            }
            let mut l = Vec::new();
            for c in m.l("cas") {
                vec16(&mut l, c);
            }
            vec16(&mut v, &l);
        }
        "server_done" | "certificate_verify" | "client_key_exchange" | "finished" => v.extend_from_slice(m.b("body")),
        "certificate_status" => {
            v.push(m.u("stype") as u8);
            vec24(&mut v, m.b("blob"));
        }
        "key_update" => v.push(m.u("v") as u8),
        "next_protocol" => {
            vec8(&mut v, m.b("proto"));
            vec8(&mut v, m.b("padding"));
        }
        // DTLS-only bodies
        "d_client_hello" => {
            put_u16(&mut v, m.u("ver"));
            v.extend_from_slice(m.b("random"));
            vec8(&mut v, m.ob("sid").unwrap_or(&[]));
            vec8(&mut v, m.b("cookie"));
            vec16(&mut v, m.b("ciphers"));
            vec8(&mut v, m.b("comp"));
            opt_ext(&mut v, m);
        }
        "d_hello_verify" => {
            put_u16(&mut v, m.u("ver"));
            vec8(&mut v, m.b("cookie"));
        }
        _ => v.extend_from_slice(m.b("body")),
    }
    v
}

/// one TLS message as it appears inside a record payload
pub fn tls_message(m: &Item) -> Vec<u8> {
    match m.kind.as_str() {
        "ccs" => vec![1],
        "alert" => vec![m.u("level") as u8, m.u("desc") as u8],
        "appdata" => m.b("blob").to_vec(),
        "heartbeat" => {
            let mut v = vec![m.u("hbtype") as u8];
            put_u16(&mut v, m.u("plen"));
            v.extend_from_slice(m.b("payload"));
            v.extend_from_slice(m.b("pad"));
            v
        }
        // raw bytes placed in a payload as they are (malformed-tail constructions)
        "rawmsg" => m.b("bytes").to_vec(),
        k => {
            let body = hs_body(m);
            let t = m.u_opt("hstype").map(|x| x as u8).or_else(|| hs_type(k)).unwrap_or(0xff);
            let mut v = vec![t];
            // `hslen` overrides the true length (length-lie fault)
            put_u24(&mut v, m.u_opt("hslen").unwrap_or(body.len() as u64));
            v.extend_from_slice(&body);
            v
        }
    }
}

pub fn tls_record(ctype: u8, ver: u16, declared_len: u64, payload: &[u8]) -> Vec<u8> {
    let mut v = vec![ctype];
    put_u16(&mut v, ver as u64);
    put_u16(&mut v, declared_len);
    v.extend_from_slice(payload);
    v
}

pub fn dtls_record(ctype: u8, ver: u16, epoch: u16, seq48: u64, declared_len: u64, payload: &[u8]) -> Vec<u8> {
    let mut v = vec![ctype];
    put_u16(&mut v, ver as u64);
    put_u16(&mut v, epoch as u64);
    put_u48(&mut v, seq48);
    put_u16(&mut v, declared_len);
    v.extend_from_slice(payload);
    v
}

pub fn dtls_handshake(t: u8, total: u64, msg_seq: u16, off: u64, flen: u64, frag: &[u8]) -> Vec<u8> {
    let mut v = vec![t];
    put_u24(&mut v, total);
    put_u16(&mut v, msg_seq as u64);
    put_u24(&mut v, off);
    put_u24(&mut v, flen);
    v.extend_from_slice(frag);
    v
}

pub fn dtls_hs_type(kind: &str) -> u8 {
    match kind {
        "d_client_hello" => 1,
        "d_hello_verify" => 3,
        k => hs_type(k).unwrap_or(0xfe),
    }
}
