//! World `flow` (W-TLS at message level): two peers and a passive monitor. Peers follow a flow of
//! the documented grammar; the fault layer perturbs the message history (drop, dup, reorder,
//! cross-direction skew, direction flip, injection, mid-stream pickup). The monitor (REAL
//! `tls_state_transition`) is compared step by step with a reference flow acceptor derived from
//! the declarative grammar below.

use crate::core::{Ctx, Prop};
use crate::enc;
use crate::gen;
use crate::item::{Item, Scenario};
use crate::prng::Rng;
use crate::val;
use tls_parser::*;

pub const STATES: [&str; 25] = [
    "None",
    "ClientHello",
    "AskResumeSession",
    "ResumeSession",
    "ServerHello",
    "Certificate",
    "CertificateSt",
    "ServerKeyExchange",
    "ServerHelloDone",
    "ClientKeyExchange",
    "ClientChangeCipherSpec",
    "CRCertRequest",
    "CRHelloDone",
    "CRCert",
    "CRClientKeyExchange",
    "CRCertVerify",
    "NoCertSKE",
    "NoCertHelloDone",
    "NoCertCKE",
    "PskHelloDone",
    "PskCKE",
    "SessionEncrypted",
    "Alert",
    "Finished",
    "Invalid",
];

fn real_state(i: usize) -> TlsState {
    use TlsState::*;
    [
        None,
        ClientHello,
        AskResumeSession,
        ResumeSession,
        ServerHello,
        Certificate,
        CertificateSt,
        ServerKeyExchange,
        ServerHelloDone,
        ClientKeyExchange,
        ClientChangeCipherSpec,
        CRCertRequest,
        CRHelloDone,
        CRCert,
        CRClientKeyExchange,
        CRCertVerify,
        NoCertSKE,
        NoCertHelloDone,
        NoCertCKE,
        PskHelloDone,
        PskCKE,
        SessionEncrypted,
        Alert,
        Finished,
        Invalid,
    ][i % 25]
}

fn st(name: &str) -> usize {
    STATES.iter().position(|x| *x == name).expect("state name")
}

/// token classes: 18 handshake (ClientHello split by session-id presence), CCS, alert warning,
/// alert other, application data, heartbeat
pub const TOKENS: [&str; 23] = [
    "hello_request",
    "client_hello",
    "client_hello+sid",
    "server_hello",
    "server_hello_d18",
    "new_session_ticket",
    "end_of_early_data",
    "hello_retry_request",
    "certificate",
    "server_key_exchange",
    "certificate_request",
    "server_done",
    "certificate_verify",
    "client_key_exchange",
    "finished",
    "certificate_status",
    "key_update",
    "next_protocol",
    "ccs",
    "alert(warning)",
    "alert(other)",
    "appdata",
    "heartbeat",
];

fn tok(name: &str) -> usize {
    TOKENS.iter().position(|x| *x == name).expect("token name")
}

pub fn token_of(m: &Item) -> usize {
    match m.kind.as_str() {
        "client_hello" => {
            if m.ob("sid").is_some() {
                tok("client_hello+sid")
            } else {
                tok("client_hello")
            }
        }
        "alert" => {
            if m.u("level") == 1 {
                tok("alert(warning)")
            } else {
                tok("alert(other)")
            }
        }
        "client_key_exchange_dh" | "client_key_exchange_ecdh" => tok("client_key_exchange"),
        k => TOKENS.iter().position(|x| *x == k).unwrap_or(0),
    }
}

#[derive(Clone, Copy, PartialEq)]
pub enum Dir {
    C, // to server
    S, // to client
    /// ChangeCipherSpec steps the code accepts from both peers: the flow has the CLIENT send it
    /// (`Ce`) or the SERVER (`Se`, resumption); from the other peer the statement - whose direction
    /// clause is about handshake messages - does not decide, and either answer is taken
    Ce,
    Se,
}

#[derive(Clone, Copy, PartialEq)]
pub enum Want {
    Accept(usize),
    Reject,
    /// the statement does not decide this step: follow the implementation (next state if accepted)
    Either(usize),
}

/// The documented flows (DESIGN §3.C08), as edges (state, direction, token, next state).
fn grammar() -> Vec<(usize, Dir, usize, usize)> {
    use Dir::*;
    let e = |a: &str, d: Dir, t: &str, b: &str| (st(a), d, tok(t), st(b));
    vec![
        // full handshake, optional CertificateStatus
        e("None", C, "client_hello", "ClientHello"),
        e("ClientHello", S, "server_hello", "ServerHello"),
        e("ServerHello", S, "certificate", "Certificate"),
        e("Certificate", S, "server_key_exchange", "ServerKeyExchange"),
        e("Certificate", S, "certificate_status", "CertificateSt"),
        e("CertificateSt", S, "server_key_exchange", "ServerKeyExchange"),
        e("ServerKeyExchange", S, "server_done", "ServerHelloDone"),
        e("ServerHelloDone", C, "client_key_exchange", "ClientKeyExchange"),
        e("ClientKeyExchange", Ce, "ccs", "ClientChangeCipherSpec"),
        // key exchange without ServerKeyExchange
        e("Certificate", S, "server_done", "PskHelloDone"),
        e("PskHelloDone", C, "client_key_exchange", "PskCKE"),
        e("PskCKE", Ce, "ccs", "ClientChangeCipherSpec"),
        // client-certificate request
        e("Certificate", S, "certificate_request", "CRCertRequest"),
        e("ServerKeyExchange", S, "certificate_request", "CRCertRequest"),
        e("CRCertRequest", S, "server_done", "CRHelloDone"),
        e("CRHelloDone", C, "certificate", "CRCert"),
        e("CRCert", C, "client_key_exchange", "CRClientKeyExchange"),
        e("CRClientKeyExchange", Ce, "ccs", "ClientChangeCipherSpec"),
        e("CRClientKeyExchange", C, "certificate_verify", "CRCertVerify"),
        e("CRCertVerify", Ce, "ccs", "ClientChangeCipherSpec"),
        // anonymous server
        e("ServerHello", S, "server_key_exchange", "NoCertSKE"),
        e("NoCertSKE", S, "server_done", "NoCertHelloDone"),
        e("NoCertHelloDone", C, "client_key_exchange", "NoCertCKE"),
        e("NoCertCKE", Ce, "ccs", "ClientChangeCipherSpec"),
        // resumption, 0-RTT CCS, fallback to a full handshake
        e("None", C, "client_hello+sid", "AskResumeSession"),
        e("AskResumeSession", C, "ccs", "AskResumeSession"),
        e("AskResumeSession", S, "server_hello", "ResumeSession"),
        e("ResumeSession", Se, "ccs", "ClientChangeCipherSpec"),
        e("ResumeSession", S, "certificate", "Certificate"),
        // TLS 1.3 draft-18 1-RTT
        e("ClientHello", S, "server_hello_d18", "ClientChangeCipherSpec"),
        // tail
        e("ClientChangeCipherSpec", S, "new_session_ticket", "ClientChangeCipherSpec"),
        e("ClientChangeCipherSpec", S, "ccs", "SessionEncrypted"),
    ]
}

/// Reference flow acceptor.
pub fn accept(edges: &[(usize, Dir, usize, usize)], state: usize, token: usize, to_server: bool) -> Want {
    let s = STATES[state];
    // absorbing states first
    if s == "Invalid" {
        return Want::Accept(state);
    }
    if s == "SessionEncrypted" {
        return Want::Accept(state);
    }
    let t = TOKENS[token];
    if s == "Finished" {
        // "Finished always moves to Invalid" against "HelloRequest is ignored in every state except
        // None": for a HelloRequest in Finished the two clauses collide - either answer is taken
        return if t == "hello_request" { Want::Either(st("Invalid")) } else { Want::Accept(st("Invalid")) };
    }
    if t == "hello_request" {
        // "ignored in every state except None" - but a HelloRequest only ever comes from the server
        // ("each handshake message only from the peer that sends it"): for one sent by the client
        // the two clauses collide, and either answer is taken
        return if s == "None" {
            Want::Reject
        } else if to_server {
            Want::Either(state)
        } else {
            Want::Accept(state)
        };
    }
    if t == "alert(warning)" {
        return Want::Accept(state);
    }
    if t == "alert(other)" {
        return Want::Accept(st("Finished"));
    }
    let mut either = None;
    for (a, d, k, b) in edges {
        if *a == state && *k == token {
            let ok = match d {
                Dir::C => to_server,
                Dir::S => !to_server,
                Dir::Ce => {
                    if !to_server {
                        either = Some(*b);
                    }
                    to_server
                }
                Dir::Se => {
                    if to_server {
                        either = Some(*b);
                    }
                    !to_server
                }
            };
            if ok {
                return Want::Accept(*b);
            }
        }
    }
    if let Some(b) = either {
        return Want::Either(b);
    }
    // steps the statement's (informal) flow list admits but the code does not model today
    for (a, d, k, b) in open_steps() {
        if a == state && k == token && d == to_server {
            return Want::Either(b);
        }
    }
    Want::Reject
}

/// "optional CertificateStatus, ServerKeyExchange and client-certificate request" admits a
/// CertificateStatus that is not followed by a ServerKeyExchange; in a resumed session the server's
/// ChangeCipherSpec comes first and the client's second. The code rejects these today; a crate that
/// accepts them (landing where the corresponding flow continues) is within the statement too.
fn open_steps() -> Vec<(usize, bool, usize, usize)> {
    vec![
        (st("CertificateSt"), false, tok("server_done"), st("PskHelloDone")),
        (st("CertificateSt"), false, tok("certificate_request"), st("CRCertRequest")),
        (st("ClientChangeCipherSpec"), true, tok("ccs"), st("SessionEncrypted")),
        (st("AskResumeSession"), false, tok("ccs"), st("AskResumeSession")),
    ]
}

// ------------------------------------------------------------------ Phase A

fn gen_token_msg(rng: &mut Rng, token: usize) -> Item {
    let t = TOKENS[token];
    match t {
        "client_hello" | "client_hello+sid" => {
            let mut m = gen::handshake(rng, "client_hello", 120);
            if t == "client_hello" {
                m.set("sid", crate::item::Val::None);
            } else {
                // presence is what matters: a constructed value may even carry an empty id
                // (a constructed value may even carry an empty id, or one longer than the 32 bytes the
                // wire allows: presence is what the property names)
                let n = match rng.below(10) {
                    0 => *rng.pick(&[33usize, 48, 64, 255, 300]),
                    _ => rng.urange(1, 32),
                };
                m.set("sid", crate::item::Val::Bytes(rng.bytes(n)));
            }
            m
        }
        "server_hello" => {
            // a constructed ServerHello can carry any version (the wire parser only accepts 0x0300..0x0303)
            let mut m = gen::handshake(rng, "server_hello", 120);
            if rng.chance(1, 2) {
                m.set("ver", crate::item::Val::Int(gen::version(rng) as u64));
            }
            m
        }
        "client_key_exchange" => {
            // all three ClientKeyExchange variants are the same message kind
            let m = gen::handshake(rng, "client_key_exchange", 120);
            match rng.below(4) {
                0 => Item::new("client_key_exchange_dh").bytes("body", m.b("body")),
                1 => Item::new("client_key_exchange_ecdh").bytes("body", &m.b("body")[..m.b("body").len().min(200)]),
                _ => m,
            }
        }
        "server_hello_d18" => {
            // a constructed draft-18 ServerHello can carry any version
            let mut m = gen::handshake(rng, "server_hello_d18", 120);
            if rng.chance(1, 2) {
                m.set("ver", crate::item::Val::Int(gen::version(rng) as u64));
            }
            m
        }
        "new_session_ticket" => {
            // any ticket bytes, including none at all
            let mut m = gen::handshake(rng, "new_session_ticket", 120);
            if rng.chance(1, 3) {
                let n = rng.below(3) as usize;
                m.set("ticket", crate::item::Val::Bytes(rng.bytes(n)));
            }
            m
        }
        "ccs" => Item::new("ccs"),
        "alert(warning)" => Item::new("alert").int("level", 1).int("desc", rng.u8() as u64),
        "alert(other)" => {
            let mut l = rng.u8();
            if l == 1 {
                l = 2;
            }
            Item::new("alert").int("level", l as u64).int("desc", rng.u8() as u64)
        }
        "appdata" => gen::appdata(rng, 60),
        "heartbeat" => gen::heartbeat(rng, 60),
        k => gen::handshake(rng, k, 120),
    }
}

pub fn generate(rng: &mut Rng, _prop: Prop) -> Scenario {
    let edges = grammar();
    let mut s = Scenario::new("flow");
    let pickup = rng.chance(1, 3);
    let start = if pickup { rng.usize_below(25) } else { 0 };
    let integrated = rng.chance(1, 3);
    let onerr = rng.below(2);
    s.push(Item::new("knob").int("start", start as u64).int("integrated", integrated as u64).int("onerr", onerr));

    // the peers' script: a walk through the grammar from the start state
    let mut script: Vec<(bool, usize)> = Vec::new(); // (to_server, token)
    let mut state = start;
    for _ in 0..rng.urange(1, 14 * crate::prng::depth()) {
        let outs: Vec<&(usize, Dir, usize, usize)> = edges.iter().filter(|e| e.0 == state).collect();
        if outs.is_empty() {
            break;
        }
        let e = *rng.pick(&outs);
        let to_server = match e.1 {
            Dir::C => true,
            Dir::S => false,
            Dir::Ce => !rng.chance(1, 4),
            Dir::Se => rng.chance(1, 4),
        };
        script.push((to_server, e.2));
        state = e.3;
    }
    // swarm: which message-level faults are enabled in this run
    let f_drop = rng.chance(1, 3);
    let f_dup = rng.chance(1, 3);
    let f_reorder = rng.chance(1, 3);
    let f_flip = rng.chance(1, 3);
    let f_inject = rng.chance(1, 2);
    let f_alert = rng.chance(1, 3);
    let f_hr = rng.chance(1, 4);
    let f_skew = rng.chance(1, 3);

    let mut hist: Vec<(bool, usize, &'static str)> = Vec::new();
    for (d, t) in script {
        if f_drop && rng.chance(1, 8) {
            hist.push((d, usize::MAX, "msg-drop"));
            continue;
        }
        if f_inject && rng.chance(1, 6) {
            hist.push((rng.chance(1, 2), rng.usize_below(23), "msg-inject"));
        }
        if f_alert && rng.chance(1, 8) {
            hist.push((rng.chance(1, 2), if rng.chance(1, 2) { tok("alert(warning)") } else { tok("alert(other)") }, "alert-inject"));
        }
        if f_hr && rng.chance(1, 8) {
            hist.push((rng.chance(1, 2), tok("hello_request"), "hello-request-inject"));
        }
        let d2 = if f_flip && rng.chance(1, 8) { !d } else { d };
        hist.push((d2, t, if d2 != d { "direction-flip" } else { "" }));
        if f_dup && rng.chance(1, 8) {
            hist.push((d2, t, "msg-dup"));
        }
    }
    if f_inject {
        for _ in 0..rng.urange(0, 3) {
            hist.push((rng.chance(1, 2), rng.usize_below(23), "msg-inject"));
        }
    }
    if f_reorder && hist.len() >= 2 {
        let i = rng.usize_below(hist.len() - 1);
        hist.swap(i, i + 1);
        hist[i].2 = "msg-reorder";
    }
    // network to the tap: per-direction latency and jitter give the arrival order (cross-direction skew)
    let lat_c = rng.range(50, 5000);
    let lat_s = if f_skew { rng.range(50, 200_000) } else { lat_c };
    let mut t_send = 0u64;
    let mut arrivals: Vec<(u64, usize, bool, usize, &'static str)> = Vec::new();
    let mut last_c = 0u64;
    let mut last_s = 0u64;
    for (i, (d, t, f)) in hist.iter().enumerate() {
        t_send += rng.range(10, 2000);
        if *t == usize::MAX {
            arrivals.push((t_send, i, *d, *t, f));
            continue;
        }
        let mut at = t_send + if *d { lat_c } else { lat_s } + rng.range(0, 300);
        // FIFO per direction (a TCP stream does not reorder within a direction)
        if *d {
            at = at.max(last_c + 1);
            last_c = at;
        } else {
            at = at.max(last_s + 1);
            last_s = at;
        }
        arrivals.push((at, i, *d, *t, f));
    }
    let order_before: Vec<usize> = arrivals.iter().map(|a| a.1).collect();
    arrivals.sort();
    let skewed = arrivals.iter().map(|a| a.1).collect::<Vec<_>>() != order_before;
    for (at, _, d, t, f) in arrivals {
        if t == usize::MAX {
            s.push(Item::new("lost").int("t", at).int("_dir", d as u64));
            continue;
        }
        let mut m = gen_token_msg(rng, t).int("_dir", d as u64).int("_t", at);
        if integrated && rng.chance(1, 3) {
            m = m.int("_frag", rng.range(2, 6));
        }
        if !f.is_empty() {
            m = m.str("_fault", f);
        } else if skewed && f_skew {
            m = m.str("_fault", "cross-direction-skew");
        }
        s.push(m);
    }
    s
}

// ------------------------------------------------------------------ Phase B

pub fn execute(scn: &Scenario, ctx: &mut Ctx) {
    let edges = grammar();
    let knob = scn.knob().cloned().unwrap_or_else(|| Item::new("knob"));
    let state = (knob.u("start") as usize) % 25;
    let mut track = Track { real: real_state(state), model: state, diverged: false };
    let integrated = knob.u("integrated") == 1;
    let onerr_invalid = knob.u("onerr") == 1;
    if state != 0 {
        ctx.fault("midstream-pickup");
    }
    let mut steps = 0u32;
    let mut parsers = [TlsRecordsParser::default(), TlsRecordsParser::default()];
    for m in &scn.items {
        match m.kind.as_str() {
            "knob" => continue,
            "lost" => {
                ctx.fault("msg-drop");
                continue;
            }
            _ => {}
        }
        let to_server = m.u("_dir") == 1;
        ctx.sim_time_us = ctx.sim_time_us.max(m.u("_t"));
        match m.s("_fault") {
            "msg-inject" => ctx.fault("msg-inject"),
            "alert-inject" => ctx.fault("alert-inject"),
            "hello-request-inject" => ctx.fault("hello-request-inject"),
            "direction-flip" => ctx.fault("direction-flip"),
            "msg-dup" => ctx.fault("msg-dup"),
            "msg-reorder" => ctx.fault("msg-reorder"),
            "cross-direction-skew" => ctx.fault("cross-direction-skew"),
            _ => {}
        }
        let token = token_of(m);
        // the message value the monitor sees: constructed by the peer stub, or (integrated batch)
        // produced by the real pipeline from the wire encoding: raw record(s) -> per-direction
        // TlsRecordsParser (the record layer may fragment the message) -> message value
        let mut stepped = false;
        if integrated {
            let payload = enc::tls_message(m);
            let ctype = enc::content_type(&m.kind);
            let nfrag = if ctype == 22 { (m.u("_frag") as usize).clamp(1, 6).min(payload.len().max(1)) } else { 1 };
            if nfrag > 1 {
                ctx.fault("record-fragmentation");
            }
            let parser = &mut parsers[to_server as usize];
            let mut wires: Vec<Vec<u8>> = Vec::new();
            for i in 0..nfrag {
                let lo = payload.len() * i / nfrag;
                let hi = payload.len() * (i + 1) / nfrag;
                wires.push(enc::tls_record(ctype, 0x0303, (hi - lo) as u64, &payload[lo..hi]));
            }
            let mut ok = true;
            for (i, w) in wires.iter().enumerate() {
                let raw = match ctx.call("parse_tls_raw_record", w.len(), 0, || parse_tls_raw_record(w)) {
                    Some(Ok((_, r))) => r,
                    _ => {
                        ok = false;
                        break;
                    }
                };
                let last = i + 1 == wires.len();
                // the result borrows the parser: evaluate the step inside the same scope
                let r = ctx.call("TlsRecordsParser::parse_record", w.len(), 11 << 20, || parser.parse_record(raw));
                match r {
                    Some(Ok((_, msgs))) if last && msgs.len() == 1 && val::same(&val::msg_to_item(&msgs[0]), m) => {
                        do_step(ctx, &edges, &mut track, &msgs[0], to_server, token, onerr_invalid, &mut steps);
                        stepped = true;
                    }
                    Some(Err(tls_parser::Err::Incomplete(_))) if !last => {}
                    _ => {
                        ok = false;
                        break;
                    }
                }
            }
            if !ok || !stepped {
                // the wire path did not deliver this message (C03 / C07's business)
                parsers[to_server as usize].reset();
            }
        }
        if !stepped {
            let bb = val::build_bytes(m);
            match val::build_message(m, &bb) {
                Some(b) => do_step(ctx, &edges, &mut track, &b, to_server, token, onerr_invalid, &mut steps),
                None => continue,
            }
        }
    }
    if steps >= 2 {
        ctx.nontrivial = true;
    }
}

/// One step of the monitor. The comparison is at the level the property is stated: which
/// (state, direction, message) steps are ACCEPTED and which are rejected with InvalidTransition,
/// plus the states the statement names (Invalid and SessionEncrypted absorbing, Finished -> Invalid,
/// fatal alert -> Finished, warning alert / HelloRequest leave the state unchanged). The identity of
/// the other intermediate states is not compared: the real state value and the acceptor's state are
/// tracked side by side, so a wrong landing state shows up as soon as its future differs.
#[allow(clippy::too_many_arguments)]
fn do_step(ctx: &mut Ctx, edges: &[(usize, Dir, usize, usize)], st: &mut Track, msg: &TlsMessage, to_server: bool, token: usize, onerr_invalid: bool, steps: &mut u32) {
    if st.diverged {
        return;
    }
    let real_before = st.real;
    let model_before = st.model;
    let got = match ctx.call("tls_state_transition", 0, 0, || tls_state_transition(real_before, msg, to_server)) {
        Some(g) => g,
        None => {
            st.diverged = true;
            return;
        }
    };
    let want = accept(edges, model_before, token, to_server);
    let cell = ((model_before * 2 + to_server as usize) * 23 + token) as u32;
    ctx.cell("transition", cell);
    ctx.log(8, cell as u64, got.is_ok() as u64);
    ctx.trace(8, cell as u64 * 2 + got.is_ok() as u64, 0);
    *steps += 1;
    let sig = format!("flow/{}/{}/{}", STATES[model_before], if to_server { "to_server" } else { "to_client" }, TOKENS[token]);
    let who = if to_server { "from the client" } else { "from the server" };
    let want = match (want, &got) {
        (Want::Either(m2), Ok(s2)) => {
            ctx.count("oracle/steps_the_statement_leaves_open", 1);
            // an open step has an open continuation: the conversation stays under the acceptor only
            // if the implementation landed where the corresponding flow continues
            if *s2 != real_state(m2) {
                st.diverged = true;
                return;
            }
            Some(m2)
        }
        (Want::Either(_), Err(_)) => {
            ctx.count("oracle/steps_the_statement_leaves_open", 1);
            None
        }
        (Want::Accept(m2), _) => Some(m2),
        (Want::Reject, _) => None,
    };
    match (&got, want) {
        (Ok(s2), Some(m2)) => {
            // named-state clauses of the statement
            // (the statement names Finished as the target of fatal alerts and Invalid as the target of
            // everything in Finished; it calls SessionEncrypted absorbing but does not say which step enters it)
            let named = ["Invalid", "Finished"];
            let mname = STATES[m2];
            let t = TOKENS[token];
            let must_stay = matches!(STATES[model_before], "Invalid" | "SessionEncrypted") || ((t == "alert(warning)" || t == "hello_request") && STATES[model_before] != "Finished");
            if named.contains(&mname) && *s2 != real_state(m2) {
                ctx.violate(Prop::C08, sig, || format!("state {} + {} {}: accepted into {:?}, the statement requires {}", STATES[model_before], t, who, s2, mname));
                st.diverged = true;
                return;
            }
            if must_stay && *s2 != real_before {
                ctx.violate(Prop::C08, sig, || format!("state {} + {} {}: moved from {:?} to {:?}, the statement requires the state to stay unchanged", STATES[model_before], t, who, real_before, s2));
                st.diverged = true;
                return;
            }
            st.real = *s2;
            st.model = m2;
        }
        (Err(e), None) => {
            if *e != StateChangeError::InvalidTransition {
                ctx.violate(Prop::C08, sig, || format!("state {} + {} {}: rejected with {:?} instead of InvalidTransition", STATES[model_before], TOKENS[token], who, e));
            }
            // the monitor's policy after a rejected message
            if onerr_invalid {
                st.real = TlsState::Invalid;
                st.model = 24;
            }
        }
        (Ok(s2), None) => {
            ctx.violate(Prop::C08, sig, || format!("state {} + {} {}: tls_state_transition accepted (-> {:?}), the documented flows reject this step", STATES[model_before], TOKENS[token], who, s2));
            st.diverged = true;
        }
        (Err(e), Some(m2)) => {
            ctx.violate(Prop::C08, sig, || format!("state {} + {} {}: tls_state_transition rejected ({:?}), the documented flows accept this step (-> {})", STATES[model_before], TOKENS[token], who, e, STATES[m2]));
            st.diverged = true;
        }
    }
}

/// the real state value and the acceptor's state, tracked side by side
pub struct Track {
    real: TlsState,
    model: usize,
    diverged: bool,
}

pub fn cell_name(id: u32) -> String {
    let token = (id % 23) as usize;
    let d = (id / 23) % 2;
    let s = (id / 46) as usize;
    format!("{}/{}/{}", STATES.get(s).copied().unwrap_or("?"), if d == 1 { "to_server" } else { "to_client" }, TOKENS[token])
}
