//! Phase A helpers: seeded generation of abstract, well-formed messages (peer stubs).

use crate::item::Item;
use crate::prng::Rng;

pub const HS_ALL: &[&str] = &[
    "hello_request",
    "client_hello",
    "server_hello",
    "server_hello_d18",
    "new_session_ticket",
    "end_of_early_data",
    "hello_retry_request",
    "certificate",
    "server_key_exchange",
    "certificate_request",
    "server_done",
    "certificate_verify",
    "client_key_exchange",
    "finished",
    "certificate_status",
    "key_update",
    "next_protocol",
];

const VERSIONS: &[u16] = &[0x0300, 0x0301, 0x0302, 0x0303, 0x0304, 0x7f12, 0x7f17, 0xfeff, 0xfefd, 0x0000, 0xffff, 0x0200];

pub fn version(rng: &mut Rng) -> u16 {
    if rng.chance(3, 4) {
        *rng.pick(VERSIONS)
    } else {
        rng.u16()
    }
}

fn blob(rng: &mut Rng, max: usize) -> Vec<u8> {
    let n = rng.small_len(max);
    rng.bytes(n)
}

/// cipher-suite ids that mean something to the registry (NULL, SCSVs, TLS 1.3, common ECDHE) or nothing
pub fn cipher_id(rng: &mut Rng) -> u16 {
    if rng.chance(1, 2) {
        *rng.pick(&[0x0000u16, 0x00ff, 0x5600, 0x0001, 0x002f, 0x0035, 0x009c, 0x1301, 0x1302, 0x1303, 0xc02b, 0xc02f, 0xc030, 0xcca8, 0x0a0a, 0xffff])
    } else {
        rng.u16()
    }
}

/// a well-formed extension block: what real hellos carry (the hello parsers keep it opaque, but
/// consumers - and content-dependent bugs - look inside)
pub fn extension_block(rng: &mut Rng, max: usize) -> Vec<u8> {
    let mut v = Vec::new();
    for _ in 0..rng.urange(0, 4) {
        let e = if rng.chance(1, 3) {
            // supported_versions, client list form or server selected form
            let vers: Vec<u16> = (0..rng.urange(1, 3)).map(|_| *rng.pick(&[0x0304u16, 0x0303, 0x7f12, 0x7f17, 0x7f1c, 0x0301, 0x0a0a])).collect();
            let mut c = Vec::new();
            if rng.chance(1, 2) {
                c.extend_from_slice(&vers[0].to_be_bytes());
            } else {
                c.push((vers.len() * 2) as u8);
                for x in &vers {
                    c.extend_from_slice(&x.to_be_bytes());
                }
            }
            let mut e = vec![0, 43];
            e.extend_from_slice(&(c.len() as u16).to_be_bytes());
            e.extend(c);
            e
        } else {
            crate::structs::extension(rng)
        };
        if v.len() + e.len() > max {
            break;
        }
        v.extend(e);
    }
    v
}

fn opt_ext(rng: &mut Rng, max: usize) -> Option<Vec<u8>> {
    match rng.below(6) {
        0 => None,
        1 => Some(Vec::new()),
        2 | 3 => Some(extension_block(rng, max)),
        _ => Some(blob(rng, max)),
    }
}

fn sid(rng: &mut Rng) -> Option<Vec<u8>> {
    match rng.below(4) {
        0 | 1 => None,
        2 => Some(rng.bytes(32)),
        _ => {
            let n = rng.urange(1, 32);
            Some(rng.bytes(n))
        }
    }
}

fn list(rng: &mut Rng, max_items: usize, max_each: usize) -> Vec<Vec<u8>> {
    let n = rng.small_len(max_items);
    (0..n).map(|_| blob(rng, max_each)).collect()
}

/// SHA-256("HelloRetryRequest"): the ServerHello.random that marks a TLS 1.3 HelloRetryRequest
pub const HRR_RANDOM: [u8; 32] = [
    0xcf, 0x21, 0xad, 0x74, 0xe5, 0x9a, 0x61, 0x11, 0xbe, 0x1d, 0x8c, 0x02, 0x1e, 0x65, 0xb8, 0x91, 0xc2, 0xa2, 0x11, 0x16, 0x7a, 0xbb, 0x8c, 0x5e, 0x07, 0x9e, 0x09, 0xe2, 0xc8, 0xa8, 0x33, 0x9c,
];

/// hello randoms that mean something to real stacks
fn semantic_random(rng: &mut Rng) -> Vec<u8> {
    let mut r = rng.bytes(32);
    match rng.below(5) {
        0 => r = HRR_RANDOM.to_vec(),
        1 => r[24..].copy_from_slice(b"DOWNGRD\x01"),
        2 => r[24..].copy_from_slice(b"DOWNGRD\x00"),
        3 => r = vec![*rng.pick(&[0u8, 0xff]); 32],
        _ => r[..4].copy_from_slice(&0x5f00_0000u32.to_be_bytes()),
    }
    r
}

/// a DER length
fn der_len(v: &mut Vec<u8>, n: usize, long_form: bool) {
    if n < 128 && !long_form {
        v.push(n as u8);
    } else if n < 256 {
        v.extend_from_slice(&[0x81, n as u8]);
    } else {
        v.extend_from_slice(&[0x82, (n >> 8) as u8, n as u8]);
    }
}

/// the start of a DER OCSPResponse: SEQUENCE { ENUMERATED responseStatus, [0] responseBytes? }
fn ocsp_response(rng: &mut Rng) -> Vec<u8> {
    let status = *rng.pick(&[0u8, 1, 2, 3, 5, 6, 4, 0x7f]);
    let mut inner = vec![0x0a, 0x01, status];
    if status == 0 || rng.chance(1, 4) {
        let n = rng.small_len(60);
        inner.push(0xa0);
        der_len(&mut inner, n, false);
        inner.extend(rng.bytes(n));
    }
    let mut v = vec![0x30];
    der_len(&mut v, inner.len(), rng.chance(1, 4));
    v.extend(inner);
    v
}

/// a digitally-signed structure with registry-meaningful algorithm bytes (TLS 1.2 hash/signature
/// pairs incl. anonymous, TLS 1.3 signature schemes) and a consistent length
fn digitally_signed(rng: &mut Rng, max: usize) -> Vec<u8> {
    let (h, sg) = match rng.below(3) {
        0 => (*rng.pick(&[0u8, 1, 2, 3, 4, 5, 6]), *rng.pick(&[0u8, 1, 2, 3])),
        1 => {
            let x = *rng.pick(&[0x0804u16, 0x0805, 0x0806, 0x0807, 0x0808, 0x0403, 0x0503, 0x0603, 0x0401, 0x0201, 0x0203]);
            ((x >> 8) as u8, x as u8)
        }
        _ => (rng.u8(), rng.u8()),
    };
    let n = rng.small_len(max.max(1));
    let mut v = vec![h, sg];
    v.extend_from_slice(&(n as u16).to_be_bytes());
    v.extend(rng.bytes(n));
    v
}

/// something that looks like a DER certificate / name: SEQUENCE with a consistent length
fn der_blob(rng: &mut Rng, max: usize) -> Vec<u8> {
    let n = rng.small_len(max.max(1));
    let mut v = vec![0x30];
    der_len(&mut v, n, rng.chance(1, 3));
    v.extend(rng.bytes(n));
    v
}

/// Give a message the inner structure real traffic has (consumers - and content-dependent bugs -
/// look inside the fields this crate keeps opaque)
fn semantic(rng: &mut Rng, mut m: Item, budget: usize) -> Item {
    use crate::item::Val;
    let b = budget.max(80);
    match m.kind.as_str() {
        "client_hello" | "server_hello" | "server_hello_d18" | "d_client_hello" => m.set("random", Val::Bytes(semantic_random(rng))),
        "certificate_status" => {
            m.set("stype", Val::Int(*rng.pick(&[1u64, 1, 1, 2, 0])));
            m.set("blob", Val::Bytes(ocsp_response(rng)));
        }
        "certificate_verify" => m.set("body", Val::Bytes(digitally_signed(rng, b.min(600)))),
        "server_key_exchange" => {
            let mut p = match rng.below(3) {
                0 => crate::structs::dh_params(rng),
                _ => crate::structs::ecdh_params(rng),
            };
            if rng.chance(3, 4) {
                p.extend(digitally_signed(rng, 300));
            }
            m.set("params", Val::Bytes(p));
        }
        "client_key_exchange" => {
            let n = *rng.pick(&[32usize, 33, 48, 65, 97, 128, 256]);
            let mut v = Vec::new();
            if rng.chance(1, 2) {
                v.push(n.min(255) as u8);
                v.extend(rng.bytes(n.min(255)));
            } else {
                v.extend_from_slice(&(n as u16).to_be_bytes());
                v.extend(rng.bytes(n));
            }
            m.set("body", Val::Bytes(v));
        }
        "finished" => {
            let n = *rng.pick(&[12usize, 12, 32, 48, 36]);
            m.set("body", Val::Bytes(rng.bytes(n)));
        }
        "certificate" => {
            let n = rng.urange(1, 4);
            m.set("certs", Val::List((0..n).map(|_| der_blob(rng, b / 2)).collect()));
        }
        "certificate_request" => {
            let nt = rng.urange(1, 4);
            m.set("types", Val::Bytes((0..nt).map(|_| *rng.pick(&[1u8, 2, 3, 4, 64, 65, 66])).collect()));
            if m.ob("sigalgs").is_some() {
                let na = rng.urange(1, 8);
                m.set("sigalgs", Val::Bytes((0..na).flat_map(|_| rng.pick(&[0x0403u16, 0x0804, 0x0401, 0x0503, 0x0201, 0x0807, 0x0000, 0x0100]).to_be_bytes()).collect()));
            }
            let nc = rng.urange(0, 3);
            m.set("cas", Val::List((0..nc).map(|_| der_blob(rng, 60)).collect()));
        }
        "next_protocol" => {
            m.set("proto", Val::Bytes(rng.pick(&[&b"h2"[..], b"http/1.1", b"spdy/3.1", b""]).to_vec()));
            let pl = m.b("proto").len();
            m.set("padding", Val::Bytes(vec![0; 32 - ((pl + 2) % 32)]));
        }
        "key_update" => m.set("v", Val::Int(rng.below(2))),
        _ => {}
    }
    m
}

/// a well-formed handshake message of the given kind whose encoding is at most ~`budget` bytes:
/// opaque fields filled with arbitrary bytes, or (one time in three) with the inner structure
/// real traffic carries
pub fn handshake(rng: &mut Rng, kind: &str, budget: usize) -> Item {
    let m = handshake_plain(rng, kind, budget);
    if rng.chance(1, 3) {
        semantic(rng, m, budget)
    } else {
        m
    }
}

fn handshake_plain(rng: &mut Rng, kind: &str, budget: usize) -> Item {
    let b = budget.max(80);
    let it = Item::new(kind);
    match kind {
        "hello_request" | "end_of_early_data" => it,
        "client_hello" => {
            let ciphers = {
                let n = rng.small_len(((b / 4).min(32767)).max(1));
                match rng.below(4) {
                    0 => (0..n).flat_map(|_| rng.pick(&[0x1301u16, 0x1302, 0x1303]).to_be_bytes()).collect(),
                    1 => (0..n).flat_map(|_| cipher_id(rng).to_be_bytes()).collect(),
                    _ => rng.bytes(n * 2),
                }
            };
            let comp = blob(rng, (b / 8).min(255));
            it.int("ver", version(rng) as u64)
                .bytes("random", &rng.bytes(32))
                .opt_bytes("sid", sid(rng).as_deref())
                .bytes("ciphers", &ciphers)
                .bytes("comp", &comp)
                .opt_bytes("ext", opt_ext(rng, (b / 3).min(65535)).as_deref())
        }
        "server_hello" => {
            let ver = *rng.pick(&[0x0300u16, 0x0301, 0x0302, 0x0303, 0x0303]);
            let ext = if ver == 0x0300 { None } else { opt_ext(rng, (b / 2).min(65535)) };
            it.int("ver", ver as u64)
                .bytes("random", &rng.bytes(32))
                .opt_bytes("sid", sid(rng).as_deref())
                .int("cipher", cipher_id(rng) as u64)
                .int("comp", if rng.chance(1, 2) { 0 } else { rng.u8() as u64 })
                .opt_bytes("ext", ext.as_deref())
        }
        "server_hello_d18" => it
            .int("ver", 0x7f12)
            .bytes("random", &rng.bytes(32))
            .int("cipher", cipher_id(rng) as u64)
            .opt_bytes("ext", opt_ext(rng, (b / 2).min(65535)).as_deref()),
        "new_session_ticket" => {
            // RFC 5077: uint32 lifetime hint, then opaque ticket<0..2^16-1> (its own u16 length prefix)
            let t = blob(rng, b.min(60000));
            let mut full = (t.len() as u16).to_be_bytes().to_vec();
            full.extend(t);
            it.int("hint", rng.u32() as u64).bytes("ticket", &full)
        }
        "hello_retry_request" => it
            .int("ver", version(rng) as u64)
            .int("cipher", rng.u16() as u64)
            .opt_bytes("ext", opt_ext(rng, (b / 2).min(65535)).as_deref()),
        "certificate" => {
            if rng.chance(1, 10) {
                // many small / empty certificates, or one large one
                let n = *rng.pick(&[0usize, 1, 40, 200]);
                it.list("certs", (0..n).map(|_| { let l = rng.below(3) as usize; rng.bytes(l) }).collect())
            } else {
                it.list("certs", list(rng, 6, b / 4))
            }
        }
        "server_key_exchange" => it.bytes("params", &blob(rng, b)),
        "certificate_request" => {
            let types = if rng.chance(1, 8) { let l = *rng.pick(&[127usize, 128, 129, 255]); rng.bytes(l) } else { blob(rng, 12) };
            let it = it.bytes("types", &types);
            let it = if rng.chance(2, 3) {
                let n = if rng.chance(1, 8) { *rng.pick(&[127usize, 128, 255, 256, 300]) } else { rng.small_len(20) };
                it.bytes("sigalgs", &rng.bytes(n * 2))
            } else {
                it.none("sigalgs")
            };
            it.list("cas", list(rng, 5, b / 8))
        }
        "server_done" => {
            if rng.chance(4, 5) {
                it.bytes("body", &[])
            } else {
                it.bytes("body", &blob(rng, 16))
            }
        }
        "certificate_verify" | "client_key_exchange" | "finished" => it.bytes("body", &blob(rng, b)),
        "certificate_status" => it.int("stype", rng.u8() as u64).bytes("blob", &blob(rng, b)),
        "key_update" => it.int("v", rng.u8() as u64),
        "next_protocol" => {
            let pl = if rng.chance(1, 8) { *rng.pick(&[0usize, 127, 128, 255]) } else { rng.small_len(255.min(b / 2)) };
            let dl = if rng.chance(1, 8) { *rng.pick(&[0usize, 127, 128, 255]) } else { rng.small_len(255.min(b / 2)) };
            it.bytes("proto", &rng.bytes(pl)).bytes("padding", &rng.bytes(dl))
        }
        _ => it,
    }
}

/// SSLv3 defines no extension block; bytes behind the compression method (e.g. the empty block
/// `00 00` this crate's own serializer emits) are ignored and `ext` reads back absent. Only the
/// TLS stream world asks for this wire-only decoration.
pub fn sslv3_trailing(rng: &mut Rng, m: Item) -> Item {
    if m.kind == "server_hello" && m.u("ver") == 0x0300 && rng.chance(1, 2) {
        let t = match rng.below(3) {
            0 => vec![0, 0],
            1 => vec![0, 2, rng.u8(), rng.u8()],
            _ => blob(rng, 12),
        };
        m.bytes("_trail", &t)
    } else {
        m
    }
}

/// true when `b` is a sequence of complete (type, length, data) extensions
pub fn is_tlv_block(b: &[u8]) -> bool {
    let mut i = 0usize;
    while i < b.len() {
        if i + 4 > b.len() {
            return false;
        }
        let l = ((b[i + 2] as usize) << 8) | b[i + 3] as usize;
        i += 4 + l;
    }
    i == b.len()
}

/// Bring a generated message inside what the RFCs call well-formed (third audit): the strict
/// oracles of C03 / C10 speak of "well-formed messages", so a maintainer who starts rejecting a
/// zero-length ASN.1Cert, a ServerHelloDone with a body, an empty cipher-suite list or an
/// extension block that is not a TLV sequence stays within those statements. (C09 quantifies
/// over such values explicitly and keeps generating them.)
pub fn rfc_valid(rng: &mut Rng, mut m: Item) -> Item {
    use crate::item::Val;
    fn at_least_one(rng: &mut Rng, m: &mut Item, k: &str) {
        if m.ob(k).map(|b| b.is_empty()).unwrap_or(false) {
            m.set(k, Val::Bytes(vec![rng.u8()]));
        }
    }
    fn tlv_ext(rng: &mut Rng, m: &mut Item) {
        if let Some(b) = m.ob("ext") {
            if !is_tlv_block(b) {
                let max = b.len().max(8);
                let e = extension_block(rng, max);
                m.set("ext", Val::Bytes(e));
            }
        }
    }
    match m.kind.as_str() {
        "client_hello" | "d_client_hello" => {
            if m.b("ciphers").is_empty() {
                m.set("ciphers", Val::Bytes(cipher_id(rng).to_be_bytes().to_vec()));
            }
            if m.b("comp").is_empty() {
                m.set("comp", Val::Bytes(vec![0]));
            }
            tlv_ext(rng, &mut m);
        }
        "server_hello" => tlv_ext(rng, &mut m),
        "server_hello_d18" => {
            // draft-18: the extension vector is not optional
            if m.ob("ext").is_none() {
                m.set("ext", Val::Bytes(extension_block(rng, 60)));
            }
            tlv_ext(rng, &mut m);
        }
        "hello_retry_request" => {
            // Extension extensions<2..2^16-1>: at least one extension
            tlv_ext(rng, &mut m);
            if m.ob("ext").map(|b| b.is_empty()).unwrap_or(true) {
                let mut e = crate::structs::extension(rng);
                if rng.chance(1, 2) {
                    e = vec![0, 43, 0, 2, 0x7f, 0x12];
                }
                m.set("ext", Val::Bytes(e));
            }
        }
        "new_session_ticket" => {
            // RFC 5077: uint32 lifetime hint, opaque ticket<0..2^16-1>
            let t = m.b("ticket").to_vec();
            let ok = t.len() >= 2 && 2 + (((t[0] as usize) << 8) | t[1] as usize) == t.len();
            if !ok {
                let mut full = (t.len() as u16).to_be_bytes().to_vec();
                full.extend(t);
                m.set("ticket", Val::Bytes(full));
            }
        }
        "certificate" => {
            let certs: Vec<Vec<u8>> = m.l("certs").iter().map(|c| if c.is_empty() { vec![0x30] } else { c.clone() }).collect();
            m.set("certs", Val::List(certs));
        }
        "certificate_request" => {
            at_least_one(rng, &mut m, "types");
            if m.ob("sigalgs").map(|b| b.is_empty()).unwrap_or(false) {
                m.set("sigalgs", Val::Bytes(vec![4, 1]));
            }
            let cas: Vec<Vec<u8>> = m.l("cas").iter().map(|c| if c.is_empty() { vec![0x30] } else { c.clone() }).collect();
            m.set("cas", Val::List(cas));
        }
        "server_done" => m.set("body", Val::Bytes(Vec::new())),
        // bodies this crate keeps opaque but the RFCs give a structure (digitally-signed, key-exchange
        // parameters, verify_data, OCSP response with status_type 1/2, KeyUpdate 0/1): only
        // structurally valid ones travel under the strict value oracles
        "certificate_verify" | "client_key_exchange" | "finished" | "certificate_status" | "server_key_exchange" | "key_update" => {
            m = semantic(rng, m, 300);
            if m.kind == "certificate_status" && m.u("stype") == 0 {
                m.set("stype", Val::Int(1));
            }
        }
        "heartbeat" => {
            if m.u("hbtype") != 1 && m.u("hbtype") != 2 {
                m.set("hbtype", Val::Int(1 + rng.below(2)));
            }
            // RFC 6520: a HeartbeatMessage never exceeds 2^14 bytes
            let plen = m.b("payload").len();
            if 3 + plen > 16384 {
                let p = m.b("payload")[..16384 - 3].to_vec();
                m.set("plen", Val::Int(p.len() as u64));
                m.set("payload", Val::Bytes(p));
                m.set("pad", Val::Bytes(Vec::new()));
            } else if 3 + plen + m.b("pad").len() > 16384 {
                let pad = m.b("pad")[..16384 - 3 - plen].to_vec();
                m.set("pad", Val::Bytes(pad));
            }
        }
        _ => {}
    }
    m
}

pub fn any_handshake(rng: &mut Rng, budget: usize) -> Item {
    let k = *rng.pick(HS_ALL);
    handshake(rng, k, budget)
}

pub fn alert(rng: &mut Rng) -> Item {
    let level = match rng.below(4) {
        0 => 1,
        1 => 2,
        _ => rng.u8() as u64,
    };
    Item::new("alert").int("level", level).int("desc", rng.u8() as u64)
}

pub fn appdata(rng: &mut Rng, max: usize) -> Item {
    let n = match rng.below(12) {
        0 => 0,
        1 => max,
        _ => rng.small_len(max),
    };
    Item::new("appdata").bytes("blob", &rng.bytes(n))
}

pub fn heartbeat(rng: &mut Rng, max: usize) -> Item {
    let max = max.max(3);
    let plen = rng.small_len(max - 3);
    let pad = if rng.chance(1, 2) { 0 } else { rng.small_len(max - 3 - plen) };
    let t = match rng.below(3) {
        0 => 1,
        1 => 2,
        _ => rng.u8() as u64,
    };
    Item::new("heartbeat").int("hbtype", t).int("plen", plen as u64).bytes("payload", &rng.bytes(plen)).bytes("pad", &rng.bytes(pad))
}

/// DTLS-specific bodies
pub fn d_client_hello(rng: &mut Rng, budget: usize) -> Item {
    let b = budget.max(80);
    let n = rng.small_len((b / 4).max(1));
    let cookie_len = match rng.below(5) {
        0 => 0,
        1 => 255,
        _ => rng.small_len(255),
    };
    let random = if rng.chance(1, 4) { semantic_random(rng) } else { rng.bytes(32) };
    Item::new("d_client_hello")
        .int("ver", *rng.pick(&[0xfeffu16, 0xfefd, 0xfefd, 0x0100]) as u64)
        .bytes("random", &random)
        .opt_bytes("sid", sid(rng).as_deref())
        .bytes("cookie", &rng.bytes(cookie_len))
        .bytes("ciphers", &rng.bytes(n * 2))
        .bytes("comp", &blob(rng, 4))
        .opt_bytes("ext", opt_ext(rng, b / 3).as_deref())
}

pub fn d_hello_verify(rng: &mut Rng) -> Item {
    let cookie_len = match rng.below(5) {
        0 => 0,
        1 => 255,
        _ => rng.small_len(255),
    };
    let ver = if rng.chance(1, 4) { rng.u16() } else { *rng.pick(&[0xfeffu16, 0xfefd, 0xfefc, 0x0100]) };
    Item::new("d_hello_verify").int("ver", ver as u64).bytes("cookie", &rng.bytes(cookie_len))
}

/// an interesting record content-type byte
pub fn content_type_any(rng: &mut Rng) -> u8 {
    match rng.below(4) {
        0 => rng.u8(),
        _ => *rng.pick(&[20u8, 21, 22, 23, 24]),
    }
}

/// declared record lengths biased to the boundaries named in DESIGN §3.C02
pub fn boundary_len(rng: &mut Rng) -> u16 {
    const B: &[u16] = &[0, 1, 2, 3, 4, 5, 16383, 16384, 16385, 16639, 16640, 16641, 16642, 32768, 65534, 65535];
    if rng.chance(2, 3) {
        *rng.pick(B)
    } else {
        rng.u16()
    }
}
