//! Execution context shared by all worlds: event log digest, fingerprints, fault counters,
//! coverage cells, violation collection, guarded calls into /repo.

use crate::guard::{guarded, CallReport};
use crate::prng::{mix, mix_str};
use std::collections::{BTreeMap, BTreeSet, HashSet};

#[derive(Clone, Copy, Debug, PartialEq, Eq, PartialOrd, Ord, Hash)]
pub enum Prop {
    C01,
    C02,
    C03,
    C06,
    C07,
    C08,
    C09,
    C10,
    C16,
}

impl Prop {
    pub fn id(self) -> &'static str {
        match self {
            Prop::C01 => "C01",
            Prop::C02 => "C02",
            Prop::C03 => "C03",
            Prop::C06 => "C06",
            Prop::C07 => "C07",
            Prop::C08 => "C08",
            Prop::C09 => "C09",
            Prop::C10 => "C10",
            Prop::C16 => "C16",
        }
    }
    pub fn parse(s: &str) -> Option<Prop> {
        Some(match s {
            "C01" => Prop::C01,
            "C02" => Prop::C02,
            "C03" => Prop::C03,
            "C06" => Prop::C06,
            "C07" => Prop::C07,
            "C08" => Prop::C08,
            "C09" => Prop::C09,
            "C10" => Prop::C10,
            "C16" => Prop::C16,
            _ => return None,
        })
    }
    pub fn all() -> &'static [Prop] {
        &[Prop::C01, Prop::C02, Prop::C03, Prop::C06, Prop::C07, Prop::C08, Prop::C09, Prop::C10, Prop::C16]
    }
    pub fn tag(self) -> u64 {
        mix_str(0x5eed, self.id())
    }
}

#[derive(Clone, Debug)]
pub struct Violation {
    pub sig: String,
    pub detail: String,
}

/// Per-run context. Phase B never draws randomness; everything recorded here is a pure
/// function of the scenario and the code under test.
pub struct Ctx {
    pub prop: Prop,
    pub violations: Vec<Violation>,
    pub digest: u64,
    pub fingerprint: u64,
    pub nontrivial: bool,
    pub faults: Vec<(&'static str, u32)>,
    pub cells: Vec<(&'static str, u32)>,
    pub calls: u64,
    pub events: u64,
    pub sim_time_us: u64,
    pub max_violations: usize,
    /// heap oracle parameters (C01): A bytes per input byte, B constant
    pub heap_a: usize,
    pub heap_b: usize,
    /// largest observed peak/bound ratio in permille and the entry point it was seen at (C01 margin probe)
    pub heap_margin: (u64, &'static str),
    /// named counters summed over the batch (reach measurement)
    pub counters: Vec<(&'static str, u64)>,
}

impl Ctx {
    pub fn new(prop: Prop) -> Ctx {
        Ctx {
            prop,
            violations: Vec::new(),
            digest: 0x1234_5678_9abc_def0,
            fingerprint: 0x0fed_cba9_8765_4321,
            nontrivial: false,
            faults: Vec::new(),
            cells: Vec::new(),
            calls: 0,
            events: 0,
            sim_time_us: 0,
            max_violations: 8,
            heap_a: crate::heap_bound_a(),
            heap_b: 1 << 20,
            heap_margin: (0, ""),
            counters: Vec::new(),
        }
    }

    #[inline]
    pub fn on(&self, p: Prop) -> bool {
        self.prop == p
    }

    /// exact event log entry (digest) — must not contain addresses
    #[inline]
    pub fn log(&mut self, kind: u64, a: u64, b: u64) {
        self.digest = mix(mix(mix(self.digest, kind), a), b);
        self.events += 1;
    }

    /// abstract trace entry (fingerprint): event kind x outcome class x size class
    #[inline]
    pub fn trace(&mut self, kind: u64, class: u64, size: usize) {
        self.fingerprint = mix(mix(mix(self.fingerprint, kind), class), size_class(size));
    }

    pub fn fault(&mut self, name: &'static str) {
        self.nontrivial = true;
        if let Some(e) = self.faults.iter_mut().find(|e| e.0 == name) {
            e.1 += 1;
        } else {
            self.faults.push((name, 1));
        }
    }

    pub fn count(&mut self, name: &'static str, n: u64) {
        if let Some(e) = self.counters.iter_mut().find(|e| e.0 == name) {
            e.1 += n;
        } else {
            self.counters.push((name, n));
        }
    }

    #[inline]
    pub fn cell(&mut self, space: &'static str, id: u32) {
        self.cells.push((space, id));
    }

    pub fn violate(&mut self, p: Prop, sig: impl Into<String>, detail: impl FnOnce() -> String) {
        if p != self.prop {
            return;
        }
        let sig = sig.into();
        if self.violations.len() >= self.max_violations || self.violations.iter().any(|v| v.sig == sig) {
            return;
        }
        self.violations.push(Violation { sig, detail: detail() });
    }

    /// A call into /repo. `input_len` feeds the linear heap bound; `extra_heap` is the
    /// allowance for state the callee is documented to retain (defragmenter buffer).
    pub fn call<R>(&mut self, entry: &'static str, input_len: usize, extra_heap: usize, f: impl FnOnce() -> R) -> Option<R> {
        self.calls += 1;
        let (r, rep): (Option<R>, CallReport) = guarded(f);
        if let Some(loc) = &rep.panic {
            // a call that unwinds did not return what any oracle expects: reported under the
            // running check's own id (and the C01 check finds it under C01)
            let sig = format!("panic/{}", loc);
            let p = self.prop;
            self.log(0xdead, mix_str(0, loc), 0);
            self.violate(p, sig, || format!("call {} (input {} bytes) unwound at {}", entry, input_len, loc));
        }
        if self.prop == Prop::C01 {
            let bound = self.heap_a.saturating_mul(input_len).saturating_add(self.heap_b).saturating_add(extra_heap);
            let pm = (rep.peak as u64).saturating_mul(1000) / bound.max(1) as u64;
            if pm > self.heap_margin.0 {
                self.heap_margin = (pm, entry);
            }
            if rep.peak > bound {
                let peak = rep.peak;
                self.violate(Prop::C01, format!("heap/{}", entry), || {
                    format!("call {} with {} input bytes: peak additional heap {} > bound {}", entry, input_len, peak, bound)
                });
            }
        }
        r
    }
}

pub fn size_class(n: usize) -> u64 {
    match n {
        0 => 0,
        1 => 1,
        2..=3 => 2,
        4 => 3,
        5 => 4,
        6..=15 => 5,
        16..=63 => 6,
        64..=255 => 7,
        256..=4095 => 8,
        4096..=16383 => 9,
        16384..=16640 => 10,
        16641..=65535 => 11,
        _ => 12,
    }
}

/// Per-worker accumulation, merged commutatively so results do not depend on the worker count.
#[derive(Default)]
pub struct Stats {
    pub runs: u64,
    pub calls: u64,
    pub events: u64,
    pub sim_time_us: u64,
    pub nontrivial_runs: u64,
    pub faults: BTreeMap<&'static str, (u64, u64)>, // fires, runs-with
    pub fingerprints: HashSet<u64>,
    pub cells: BTreeMap<&'static str, BTreeSet<u32>>,
    pub worlds: BTreeMap<String, u64>,
    pub samples: BTreeMap<u64, Vec<String>>, // idx -> short scenario
    pub violations: BTreeMap<String, (u64, String)>, // sig -> (lowest idx, detail)
    pub violating_runs: u64,
    pub digests: Vec<(u64, u64)>,
    pub harness_errors: Vec<String>,
    pub heap_margin: (u64, String),
    pub counters: BTreeMap<&'static str, u64>,
}

impl Stats {
    pub fn absorb(&mut self, idx: u64, world: &str, ctx: &Ctx, keep_digest: bool) {
        self.runs += 1;
        self.calls += ctx.calls;
        self.events += ctx.events;
        self.sim_time_us += ctx.sim_time_us;
        *self.worlds.entry(world.to_string()).or_insert(0) += 1;
        if ctx.nontrivial {
            self.nontrivial_runs += 1;
            self.fingerprints.insert(ctx.fingerprint);
        }
        for (n, c) in &ctx.faults {
            let e = self.faults.entry(n).or_insert((0, 0));
            e.0 += *c as u64;
            e.1 += 1;
        }
        for (s, id) in &ctx.cells {
            self.cells.entry(s).or_default().insert(*id);
        }
        if !ctx.violations.is_empty() {
            self.violating_runs += 1;
        }
        for v in &ctx.violations {
            match self.violations.get(&v.sig) {
                Some((i, _)) if *i <= idx => {}
                _ => {
                    self.violations.insert(v.sig.clone(), (idx, v.detail.clone()));
                }
            }
        }
        if keep_digest {
            self.digests.push((idx, ctx.digest));
        }
        if ctx.heap_margin.0 > self.heap_margin.0 {
            self.heap_margin = (ctx.heap_margin.0, ctx.heap_margin.1.to_string());
        }
        for (k, v) in &ctx.counters {
            *self.counters.entry(k).or_insert(0) += v;
        }
    }

    pub fn merge(&mut self, o: Stats) {
        self.runs += o.runs;
        self.calls += o.calls;
        self.events += o.events;
        self.sim_time_us += o.sim_time_us;
        self.nontrivial_runs += o.nontrivial_runs;
        self.violating_runs += o.violating_runs;
        for (k, v) in o.faults {
            let e = self.faults.entry(k).or_insert((0, 0));
            e.0 += v.0;
            e.1 += v.1;
        }
        self.fingerprints.extend(o.fingerprints);
        for (k, v) in o.cells {
            self.cells.entry(k).or_default().extend(v);
        }
        for (k, v) in o.worlds {
            *self.worlds.entry(k).or_insert(0) += v;
        }
        for (k, v) in o.samples {
            self.samples.insert(k, v);
        }
        while self.samples.len() > 6 {
            let last = *self.samples.keys().next_back().unwrap();
            self.samples.remove(&last);
        }
        for (sig, (idx, d)) in o.violations {
            match self.violations.get(&sig) {
                Some((i, _)) if *i <= idx => {}
                _ => {
                    self.violations.insert(sig, (idx, d));
                }
            }
        }
        self.digests.extend(o.digests);
        self.harness_errors.extend(o.harness_errors);
        for (k, v) in o.counters {
            *self.counters.entry(k).or_insert(0) += v;
        }
        if o.heap_margin.0 > self.heap_margin.0 || (o.heap_margin.0 == self.heap_margin.0 && o.heap_margin.1 < self.heap_margin.1) {
            self.heap_margin = o.heap_margin;
        }
    }
}
