//! Every call into /repo runs inside `guarded`: unwinds are caught and located, and the
//! per-thread heap meter records the peak additional live heap during the call.

use std::alloc::{GlobalAlloc, Layout, System};
use std::cell::{Cell, RefCell};
use std::panic::{catch_unwind, AssertUnwindSafe};

pub struct Meter;

thread_local! {
    static ARMED: Cell<bool> = const { Cell::new(false) };
    static CUR: Cell<i64> = const { Cell::new(0) };
    static PEAK: Cell<i64> = const { Cell::new(0) };
    static PANIC_LOC: RefCell<Option<String>> = const { RefCell::new(None) };
    static IN_GUARD: Cell<bool> = const { Cell::new(false) };
}

#[inline]
fn on_alloc(sz: usize) {
    let _ = ARMED.try_with(|a| {
        if a.get() {
            let _ = CUR.try_with(|c| {
                let v = c.get() + sz as i64;
                c.set(v);
                let _ = PEAK.try_with(|p| {
                    if v > p.get() {
                        p.set(v)
                    }
                });
            });
        }
    });
}

#[inline]
fn on_dealloc(sz: usize) {
    let _ = ARMED.try_with(|a| {
        if a.get() {
            let _ = CUR.try_with(|c| c.set(c.get() - sz as i64));
        }
    });
}

unsafe impl GlobalAlloc for Meter {
    unsafe fn alloc(&self, l: Layout) -> *mut u8 {
        on_alloc(l.size());
        System.alloc(l)
    }
    unsafe fn dealloc(&self, p: *mut u8, l: Layout) {
        on_dealloc(l.size());
        System.dealloc(p, l)
    }
    unsafe fn alloc_zeroed(&self, l: Layout) -> *mut u8 {
        on_alloc(l.size());
        System.alloc_zeroed(l)
    }
    unsafe fn realloc(&self, p: *mut u8, l: Layout, new: usize) -> *mut u8 {
        // old and new copies may both be live during the move
        on_alloc(new);
        let r = System.realloc(p, l, new);
        on_dealloc(l.size());
        r
    }
}

pub fn install_panic_hook() {
    let verbose = std::env::var("WIRESIM_VERBOSE").is_ok();
    let default = std::panic::take_hook();
    std::panic::set_hook(Box::new(move |info| {
        let in_guard = IN_GUARD.with(|g| g.get());
        let loc = match info.location() {
            Some(l) => format!("{}:{}", short_file(l.file()), l.line()),
            None => "unknown".to_string(),
        };
        if in_guard {
            PANIC_LOC.with(|p| *p.borrow_mut() = Some(loc));
            if verbose {
                default(info);
            }
        } else {
            // harness bug or minimiser probing a broken scenario: keep the location, stay quiet unless verbose
            PANIC_LOC.with(|p| *p.borrow_mut() = Some(format!("harness:{}", loc)));
            if verbose {
                default(info);
            }
        }
    }));
}

fn short_file(f: &str) -> String {
    // /repo/src/tls_records_parser.rs -> tls_records_parser.rs ; registry paths keep crate dir
    if let Some(i) = f.rfind("/src/") {
        let base = &f[i + 5..];
        if f.contains("/registry/") || f.contains("/rustc/") || f.contains("/library/") {
            let pre = &f[..i];
            let crate_dir = pre.rsplit('/').next().unwrap_or("");
            return format!("{}/{}", crate_dir, base);
        }
        return base.to_string();
    }
    f.rsplit('/').next().unwrap_or(f).to_string()
}

pub fn take_panic_loc() -> Option<String> {
    PANIC_LOC.with(|p| p.borrow_mut().take())
}

#[derive(Clone, Debug, Default)]
pub struct CallReport {
    /// peak additional live heap (bytes) during the call
    pub peak: usize,
    /// `file:line` when the call unwound
    pub panic: Option<String>,
}

/// Run one call into the code under test.
pub fn guarded<R>(f: impl FnOnce() -> R) -> (Option<R>, CallReport) {
    let was = IN_GUARD.with(|g| g.replace(true));
    CUR.with(|c| c.set(0));
    PEAK.with(|p| p.set(0));
    ARMED.with(|a| a.set(true));
    let r = catch_unwind(AssertUnwindSafe(f));
    ARMED.with(|a| a.set(false));
    IN_GUARD.with(|g| g.set(was));
    let peak = PEAK.with(|p| p.get()).max(0) as usize;
    match r {
        Ok(v) => (Some(v), CallReport { peak, panic: None }),
        Err(_) => {
            let loc = take_panic_loc().unwrap_or_else(|| "unknown".into());
            (None, CallReport { peak, panic: Some(loc) })
        }
    }
}

/// Harness-side work inside a guarded call (value -> abstract item conversion, Debug formatting
/// into a String): still under catch_unwind, but not charged to the crate's heap meter, which
/// is about what the parse call itself allocates.
pub fn unmetered<R>(f: impl FnOnce() -> R) -> R {
    let was = ARMED.with(|a| a.replace(false));
    let r = f();
    ARMED.with(|a| a.set(was));
    r
}

/// Catch a panic of the harness itself (used by the minimiser and replay: a scenario the
/// harness cannot execute is "not a reproduction", never a violation).
pub fn harness_catch<R>(f: impl FnOnce() -> R) -> Result<R, String> {
    match catch_unwind(AssertUnwindSafe(f)) {
        Ok(v) => Ok(v),
        Err(_) => Err(take_panic_loc().unwrap_or_else(|| "unknown".into())),
    }
}
