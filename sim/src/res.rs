//! Address-free summaries of nom results.

use tls_parser::nom::error::ErrorKind;
use tls_parser::nom::{Err, IResult, Needed};

#[derive(Clone, Copy, Debug, PartialEq, Eq)]
pub enum Class {
    Ok,
    Incomplete,
    Error,
    Failure,
}

#[derive(Clone, Copy, Debug, PartialEq, Eq)]
pub struct Outcome {
    pub class: Class,
    pub kind: Option<ErrorKind>,
    /// Some(Some(n)) = Needed::Size(n), Some(None) = Needed::Unknown
    pub needed: Option<Option<usize>>,
}

impl Outcome {
    pub fn ok() -> Outcome {
        Outcome { class: Class::Ok, kind: None, needed: None }
    }
    pub fn incomplete_unknown() -> Outcome {
        Outcome { class: Class::Incomplete, kind: None, needed: Some(None) }
    }
    pub fn error(k: ErrorKind) -> Outcome {
        Outcome { class: Class::Error, kind: Some(k), needed: None }
    }
    pub fn failure(k: ErrorKind) -> Outcome {
        Outcome { class: Class::Failure, kind: Some(k), needed: None }
    }
    pub fn is_ok(&self) -> bool {
        self.class == Class::Ok
    }
    pub fn is_incomplete(&self) -> bool {
        self.class == Class::Incomplete
    }
    /// Error or Failure (a rejection that is not "need more data")
    pub fn is_rejection(&self) -> bool {
        matches!(self.class, Class::Error | Class::Failure)
    }
    pub fn code(&self) -> u64 {
        let c = match self.class {
            Class::Ok => 1u64,
            Class::Incomplete => 2,
            Class::Error => 3,
            Class::Failure => 4,
        };
        let k = self.kind.map(|k| k as u64 + 1).unwrap_or(0);
        let n = match self.needed {
            None => 0,
            Some(None) => 1,
            Some(Some(n)) => 2 + n as u64,
        };
        c | k << 8 | n << 20
    }
    pub fn show(&self) -> String {
        match self.class {
            Class::Ok => "Ok".into(),
            Class::Incomplete => match self.needed {
                Some(Some(n)) => format!("Incomplete(Size({}))", n),
                _ => "Incomplete(Unknown)".into(),
            },
            Class::Error => format!("Error({:?})", self.kind.unwrap()),
            Class::Failure => format!("Failure({:?})", self.kind.unwrap()),
        }
    }
}

pub fn split<'a, O>(r: IResult<&'a [u8], O>) -> (Outcome, Option<(&'a [u8], O)>) {
    match r {
        Ok((rem, v)) => (Outcome::ok(), Some((rem, v))),
        Err(Err::Incomplete(Needed::Size(n))) => (Outcome { class: Class::Incomplete, kind: None, needed: Some(Some(n.get())) }, None),
        Err(Err::Incomplete(Needed::Unknown)) => (Outcome::incomplete_unknown(), None),
        Err(Err::Error(e)) => (Outcome::error(e.code), None),
        Err(Err::Failure(e)) => (Outcome::failure(e.code), None),
    }
}

pub fn outcome_of<I, O>(r: &IResult<I, O>) -> Outcome {
    match r {
        Ok(_) => Outcome::ok(),
        Err(Err::Incomplete(Needed::Size(n))) => Outcome { class: Class::Incomplete, kind: None, needed: Some(Some(n.get())) },
        Err(Err::Incomplete(Needed::Unknown)) => Outcome::incomplete_unknown(),
        Err(Err::Error(e)) => Outcome::error(e.code),
        Err(Err::Failure(e)) => Outcome::failure(e.code),
    }
}
