//! World `taps`: eager taps on one structure in flight. The sender stub knows the byte layout of
//! what it sent, so the monitor applies the self-delimiting parser named for the structure to
//! `&rxbuf[start_of_structure..]` at EVERY delivery event from the moment its first byte has
//! arrived, with whatever the network has already delivered behind it (C06). In the C01 batches
//! the monitor is "confused": it applies every public parser to the buffer at every event.

use crate::allparsers;
use crate::core::{Ctx, Prop};
use crate::item::{Item, Scenario};
use crate::prng::{mix_str, Rng};
use crate::res::{split, Outcome};
use crate::structs;
use crate::visit::{self, Slices};
use tls_parser::*;

// ------------------------------------------------------------------ Phase A

pub fn generate(rng: &mut Rng, prop: Prop) -> Scenario {
    let mut s = Scenario::new("taps");
    let confused = prop == Prop::C01;
    let mut kind = if confused && rng.chance(1, 5) { *rng.pick(structs::CONFUSED_ONLY) } else { *rng.pick(structs::KINDS) };
    let mut bytes = structs::structure(rng, kind);
    let mut lied = 0u64;
    // length-lie / corruption of nested fields (constructive: a single field changed)
    let lie_p = if confused { 2 } else { 3 };
    if rng.chance(1, lie_p) && !bytes.is_empty() {
        for _ in 0..rng.urange(1, if confused { 4 } else { 2 }) {
            let i = rng.usize_below(bytes.len());
            match rng.below(5) {
                0 => bytes[i] = bytes[i].wrapping_add(1),
                1 => bytes[i] = bytes[i].wrapping_sub(1),
                2 => bytes[i] = 0,
                3 => bytes[i] = 0xff,
                _ => bytes[i] ^= 1 << rng.below(8),
            }
        }
        lied = 1;
    }
    // u24-lie: the top byte of a 24-bit length field set, with more than 64 KiB in flight behind the
    // structure - enough to satisfy the enlarged length if a parser lets it reach past its container
    let mut big_trail = false;
    if !confused && rng.chance(1, 40) {
        let (k2, offs): (&str, &[usize]) = match rng.below(4) {
            0 => ("tls_plaintext", &[6]),
            1 => ("hs", &[1, 4, 7]),
            2 => ("dtls_record", &[14, 22]),
            _ => ("dhs", &[1, 9]),
        };
        let b2 = structs::structure(rng, k2);
        let at = *rng.pick(offs);
        if b2.len() > at && (k2 != "tls_plaintext" || b2[0] == 22) {
            kind = k2;
            bytes = b2;
            bytes[at] = *rng.pick(&[1u8, 1, 2, 0x80]);
            lied = 1;
            big_trail = true;
        }
    }
    s.push(Item::new("knob").int("confused", confused as u64).int("aux", rng.below(300)));
    s.push(Item::new("struct").str("kind", kind).bytes("bytes", &bytes).int("lied", lied));
    // what is already in flight behind the structure: nothing, garbage, or bytes that look like
    // valid structures themselves
    let trail = match rng.below(5) {
        _ if !confused && !big_trail && rng.chance(1, 60) => {
            // more than 64 KiB in flight behind an (unlied) structure of any kind
            let n = rng.urange(65536, 140000);
            if rng.chance(1, 2) { vec![rng.u8(); n] } else { rng.bytes(n) }
        }
        _ if big_trail => {
            let n = rng.urange(65536, 70000) + if bytes.get(1) == Some(&2) || bytes.get(6) == Some(&2) { 65536 } else { 0 };
            if rng.chance(1, 2) { vec![rng.u8(); n] } else { rng.bytes(n) }
        }
        0 => Vec::new(),
        1 => {
            let n = rng.small_len(40);
            rng.bytes(n)
        }
        2 => vec![0xff; rng.urange(1, 40)],
        _ => {
            let k2 = if rng.chance(1, 2) { kind } else { *rng.pick(structs::KINDS) };
            let mut t = structs::structure(rng, k2);
            if rng.chance(1, 2) {
                t.extend(structs::structure(rng, k2));
            }
            t
        }
    };
    s.push(Item::new("trail").bytes("bytes", &trail));
    let total = bytes.len() + trail.len();
    let mode = if total > 1500 { rng.range(1, 3) } else { rng.below(4) };
    let mut left = total;
    // (large structures - long lists - arrive in at most ~50 events: the monitor re-parses the whole
    // buffer with every parser at every event)
    let min_seg = if total > 1500 { total / 48 } else if confused { (total / 32).max(1) } else { 1 };
    while left > 0 {
        let n = match mode {
            0 => 1,
            1 => rng.urange(1, 7),
            2 => rng.small_len(600).max(1),
            _ => left,
        }
        .max(min_seg)
        .min(left);
        s.push(Item::new("seg").int("n", n as u64));
        left -= n;
    }
    s
}

// ------------------------------------------------------------------ Phase B

#[derive(Debug, PartialEq)]
enum TapVal<'a> {
    Plain(TlsPlaintext<'a>),
    Raw(TlsRawRecord<'a>),
    Enc(TlsEncrypted<'a>),
    DPlain(DTLSPlaintext<'a>),
    DMsg(DTLSMessage<'a>),
    Msg(TlsMessage<'a>),
    Ext(TlsExtension<'a>),
    Sct(SignedCertificateTimestamp<'a>),
    Scts(Vec<SignedCertificateTimestamp<'a>>),
    Dh(ServerDHParams<'a>),
    Ecdh(ServerECDHParams<'a>),
    Ec(ECParameters<'a>),
    Sig(DigitallySigned<'a>),
}

fn slices_of(v: &TapVal) -> Slices {
    let mut s = Slices::new();
    match v {
        TapVal::Plain(p) => visit::messages(&mut s, &p.msg),
        TapVal::Raw(r) => visit::push(&mut s, r.data, "raw.data"),
        TapVal::Enc(e) => visit::push(&mut s, e.msg.blob, "enc.blob"),
        TapVal::DPlain(p) => {
            for m in &p.messages {
                visit::dtls_message(&mut s, m);
            }
        }
        TapVal::DMsg(m) => visit::dtls_message(&mut s, m),
        TapVal::Msg(m) => visit::message(&mut s, m),
        TapVal::Ext(e) => visit::extension(&mut s, e),
        TapVal::Sct(x) => visit::sct(&mut s, x),
        TapVal::Scts(v) => {
            for x in v {
                visit::sct(&mut s, x);
            }
        }
        TapVal::Dh(d) => {
            visit::push(&mut s, d.dh_p, "dh.p");
            visit::push(&mut s, d.dh_g, "dh.g");
            visit::push(&mut s, d.dh_ys, "dh.ys");
        }
        TapVal::Ecdh(e) => {
            visit::ec_params(&mut s, &e.curve_params);
            visit::push(&mut s, e.public.point, "ecdh.public");
        }
        TapVal::Ec(e) => visit::ec_params(&mut s, e),
        TapVal::Sig(d) => visit::push(&mut s, d.data, "dsig.data"),
    }
    s
}

fn tap<'a>(kind: &str, b: &'a [u8]) -> (Outcome, Option<(&'a [u8], TapVal<'a>)>) {
    fn m<'a, T>(r: IResult<&'a [u8], T>, f: impl FnOnce(T) -> TapVal<'a>) -> (Outcome, Option<(&'a [u8], TapVal<'a>)>) {
        let (o, v) = split(r);
        (o, v.map(|(rem, x)| (rem, f(x))))
    }
    match kind {
        "tls_plaintext" => m(parse_tls_plaintext(b), TapVal::Plain),
        "tls_raw" => m(parse_tls_raw_record(b), TapVal::Raw),
        "tls_encrypted" => m(parse_tls_encrypted(b), TapVal::Enc),
        "dtls_record" => m(parse_dtls_plaintext_record(b), TapVal::DPlain),
        "hs" => m(parse_tls_message_handshake(b), TapVal::Msg),
        "dhs" => m(parse_dtls_message_handshake(b), TapVal::DMsg),
        "ext" => m(parse_tls_extension(b), TapVal::Ext),
        "ext_client" => m(parse_tls_client_hello_extension(b), TapVal::Ext),
        "ext_server" => m(parse_tls_server_hello_extension(b), TapVal::Ext),
        "ext_tag" => {
            // the public single-purpose parser for the extension type on the wire (each is itself a
            // self-delimiting single-extension parser); other types go through the generic one
            // (the tags some of them accept are not the registry's: ec_point_formats wants 0x000a,
            // heartbeat 0x000d, pre_shared_key 0x0028 - each parser is routed the tag IT accepts, and
            // where two parsers accept the same tag the parity of the declared length picks one)
            let t = if b.len() >= 2 { (b[0] as u16) << 8 | b[1] as u16 } else { 0xffff };
            let alt = b.len() >= 4 && b[3] & 1 == 1;
            let f: fn(&[u8]) -> IResult<&[u8], TlsExtension> = match t {
                0 => parse_tls_extension_sni,
                1 => parse_tls_extension_max_fragment_length,
                5 => parse_tls_extension_status_request,
                10 if alt => parse_tls_extension_ec_point_formats,
                10 => parse_tls_extension_elliptic_curves,
                11 => parse_tls_extension_ec_point_formats,
                13 if alt => parse_tls_extension_heartbeat,
                13 => parse_tls_extension_signature_algorithms,
                15 => parse_tls_extension_heartbeat,
                40 => parse_tls_extension_pre_shared_key,
                22 => parse_tls_extension_encrypt_then_mac,
                23 => parse_tls_extension_extended_master_secret,
                35 => parse_tls_extension_session_ticket,
                41 => parse_tls_extension_pre_shared_key,
                42 => parse_tls_extension_early_data,
                43 => parse_tls_extension_supported_versions,
                44 => parse_tls_extension_cookie,
                45 => parse_tls_extension_psk_key_exchange_modes,
                51 => parse_tls_extension_key_share,
                _ => parse_tls_extension_unknown,
            };
            m(f(b), TapVal::Ext)
        }
        "sct" => m(parse_ct_signed_certificate_timestamp(b), TapVal::Sct),
        "sct_list" => m(parse_ct_signed_certificate_timestamp_list(b), TapVal::Scts),
        "dh" => m(parse_dh_params(b), TapVal::Dh),
        "ecdh" => m(parse_ecdh_params(b), TapVal::Ecdh),
        "ec" => m(parse_ec_parameters(b), TapVal::Ec),
        "dsig" => m(parse_digitally_signed(b), TapVal::Sig),
        _ => m(parse_digitally_signed_old(b), TapVal::Sig),
    }
}

pub fn kind_index(kind: &str) -> u32 {
    structs::KINDS.iter().position(|k| *k == kind).unwrap_or(0) as u32
}

pub fn execute(scn: &Scenario, ctx: &mut Ctx) {
    let knob = scn.knob().cloned().unwrap_or_else(|| Item::new("knob"));
    let confused = knob.u("confused") == 1;
    let aux = knob.u("aux") as usize;
    let st = match scn.items.iter().find(|i| i.kind == "struct") {
        Some(s) => s,
        None => return,
    };
    let kind = st.s("kind").to_string();
    let sbytes = st.b("bytes");
    let trail = scn.items.iter().find(|i| i.kind == "trail").map(|i| i.b("bytes")).unwrap_or(&[]);
    let mut full = sbytes.to_vec();
    full.extend_from_slice(trail);
    if st.u("lied") == 1 {
        ctx.fault("length-lie");
    }
    if !trail.is_empty() {
        ctx.fault("trailing-inflight");
    }
    let full = &full[..];
    let ki = kind_index(&kind);

    // the answer given at the first event at which the declared extent was fully buffered
    let mut at_extent: Option<(usize, Outcome)> = None;
    // first non-Incomplete answer and the buffer length at which it was given
    let mut settled: Option<(usize, Outcome, Option<(usize, TapVal)>)> = None;
    let mut delivered = 0usize;
    let mut events = 0u32;
    let segs: Vec<usize> = scn.items.iter().filter(|i| i.kind == "seg").map(|i| i.u("n") as usize).collect();
    let mut dribble = false;
    // the first event delivers nothing: a reader that calls its parser before any byte arrived
    // hands it the empty slice
    for n in std::iter::once(0usize).chain(segs.into_iter()).chain(std::iter::once(usize::MAX)) {
        if delivered >= full.len() && events > 0 {
            break;
        }
        if n == 1 {
            dribble = true;
        }
        let nd = if n == usize::MAX { full.len() } else { (delivered + n).min(full.len()) };
        if nd == delivered && events > 0 {
            continue;
        }
        delivered = nd;
        events += 1;
        ctx.sim_time_us += 100;
        let buf = &full[..delivered];

        if confused {
            // C01: every public parser sees the buffer at every event
            for (name, f) in allparsers::ALL.iter() {
                let r = ctx.call(name, buf.len(), 0, || f(buf, aux));
                ctx.log(0xc01, mix_str(0, name), r.unwrap_or(0) as u64);
            }
            // ... and, as a layered consumer does, the part behind one of the fixed-size headers
            // (handshake 4, record 5, record + handshake 9, DTLS handshake 12, DTLS record 13,
            // DTLS record + handshake 25): body / content parsers then see aligned, well-formed input
            let off = [0usize, 4, 5, 9, 12, 13, 25][aux % 7];
            if off > 0 && buf.len() >= off {
                let sub = &buf[off..];
                for (name, f) in allparsers::ALL.iter() {
                    let r = ctx.call(name, sub.len(), 0, || f(sub, aux));
                    ctx.log(0xc02, mix_str(0, name), r.unwrap_or(0) as u64);
                }
                ctx.count("oracle/confused_monitor_sub_offset_events", 1);
            }
            ctx.trace(0xc01 + ki as u64, 0, buf.len());
            continue;
        }

        // ---- the eager tap
        let r = ctx.call("tap", buf.len(), 0, || {
            let (out, v) = tap(&kind, buf);
            let v = v.map(|(rem, val)| {
                let _ = format!("{:?}", val);
                let consumed = buf.len() - rem.len();
                let rem_ok = rem.is_empty() || (rem.as_ptr() as usize == buf.as_ptr() as usize + consumed);
                let sl = slices_of(&val);
                let outside = visit::first_outside(&sl, buf.as_ptr() as usize, consumed).map(|x| (x.1, x.3));
                (consumed, rem_ok, rem.len() <= buf.len(), outside, val)
            });
            (out, v)
        });
        let (out, v) = match r {
            Some(x) => x,
            None => return,
        };
        ctx.log(0x7a9, out.code(), v.as_ref().map(|x| x.0 as u64).unwrap_or(0));
        ctx.count("oracle/tap_evaluations", 1);
        if out.is_ok() && v.as_ref().map(|x| x.0 < delivered).unwrap_or(false) {
            ctx.count("oracle/taps_ok_with_inflight_bytes_behind", 1);
        }
        ctx.trace(0x7a9 + ((ki as u64) << 12), out.code() & 0xfffff, buf.len());
        let extent = structs::declared_extent(&kind, buf);
        ctx.cell("tap", ki * 4 + if out.is_ok() { if delivered > v.as_ref().map(|x| x.0).unwrap_or(0) { 1 } else { 0 } } else if out.is_incomplete() { 2 } else { 3 });

        if let Some((consumed, rem_ok, rem_fits, outside, _)) = &v {
            if !rem_ok || !rem_fits {
                ctx.violate(Prop::C06, "locality/remainder-not-suffix", || format!("{}: with {} bytes buffered the remainder is not the suffix of the input starting at offset {}", kind, buf.len(), consumed));
            }
            if let Some((label, l)) = outside {
                ctx.violate(Prop::C06, "provenance/outside-consumed", || format!("{}: slice `{}` ({} bytes) of the returned value lies outside the {} consumed bytes of the caller's buffer", kind, label, l, consumed));
            }
        }
        // once the declared extent is buffered the outcome class - "(Ok/error)" in the statement's words -
        // never changes again: bytes behind the structure are not the structure's business
        if let Some(e) = extent {
            if delivered >= e {
                match &at_extent {
                    None => at_extent = Some((delivered, out)),
                    Some((at0, o0)) => {
                        if o0.is_ok() != out.is_ok() {
                            let (at0, o0) = (*at0, *o0);
                            ctx.violate(Prop::C06, "locality/class-changed", || {
                                format!("{}: declared extent {} bytes; answered {} with {} bytes buffered and {} with {} bytes buffered", kind, e, o0.show(), at0, out.show(), buf.len())
                            });
                        }
                    }
                }
            }
        }
        // nothing outside the structure's declared length is consumed or referenced
        if let (Some(e), Some((consumed, _, _, _, val))) = (extent, v.as_ref()) {
            if *consumed > e {
                ctx.violate(Prop::C06, "provenance/outside-declared", || format!("{}: the structure declares an extent of {} bytes, the parser consumed {} bytes (with {} bytes buffered)", kind, e, consumed, buf.len()));
            } else if let Some((_, label, _, l)) = visit::first_outside(&slices_of(val), buf.as_ptr() as usize, e) {
                ctx.violate(Prop::C06, "provenance/outside-declared", || format!("{}: slice `{}` ({} bytes) reaches outside the structure's declared extent of {} bytes", kind, label, l, e));
            }
        }
        match &mut settled {
            None => {
                if !out.is_incomplete() {
                    settled = Some((delivered, out, v.map(|x| (x.0, x.4))));
                }
            }
            Some((at, first_out, first_val)) => {
                // appending bytes leaves the parsed value unchanged and only extends the remainder
                let constrained = first_out.is_ok() || extent.map(|e| *at >= e).unwrap_or(false);
                if constrained {
                    if out.is_ok() != first_out.is_ok() {
                        ctx.violate(Prop::C06, "locality/class-changed", || {
                            format!("{}: answered {} with {} bytes buffered and {} with {} bytes buffered (declared extent {:?})", kind, first_out.show(), at, out.show(), buf.len(), extent)
                        });
                    } else if let (Some((c0, v0)), Some((c1, _, _, _, v1))) = (first_val.as_ref(), v.as_ref()) {
                        if c0 != c1 || v0 != v1 {
                            ctx.violate(Prop::C06, "locality/value-changed", || {
                                format!("{}: Ok with {} bytes buffered consumed {} bytes; with {} bytes buffered it consumed {} bytes (or the parsed value differs): the outcome depends on in-flight bytes", kind, at, c0, buf.len(), c1)
                            });
                        }
                    }
                }
            }
        }
        // a structure whose declared extent is fully buffered never answers "need more data" ...
        // (only for kinds whose extent is a fixed-position length field and whose nested parsers
        // are confined to it: this is C02/C10 for records; for the others it is not claimed here)
    }
    if dribble {
        ctx.fault("seg-dribble");
    }
    if events >= 2 {
        ctx.nontrivial = true;
    }
    // appending ARBITRARY bytes: the same structure followed by a different in-flight string
    // (complemented bytes) must give the same outcome, consumption and value
    // (only when the declared extent ends inside the structure's own bytes: a length field
    // enlarged by a lie makes the following bytes part of the declared structure)
    let own = structs::declared_extent(&kind, full).map(|e| e <= sbytes.len()).unwrap_or(false);
    if !confused && !trail.is_empty() && own {
        let mut alt = sbytes.to_vec();
        alt.extend(trail.iter().map(|b| !b));
        let describe = |ctx: &mut Ctx, b: &[u8]| {
            ctx.call("tap", b.len(), 0, || {
                let (out, v) = tap(&kind, b);
                let d = v.map(|(rem, val)| {
                    let base = b.as_ptr() as usize;
                    let sl: Vec<(i64, usize)> = slices_of(&val).iter().map(|(p, l, _)| if *l == 0 { (-1, 0) } else { (*p as i64 - base as i64, *l) }).collect();
                    (b.len() - rem.len(), format!("{:?}", val), sl)
                });
                (out, d)
            })
        };
        let a = describe(ctx, full);
        let b = describe(ctx, &alt);
        if let (Some((oa, da)), Some((ob, db))) = (a, b) {
            ctx.log(0xa17, oa.code(), ob.code());
            ctx.count("oracle/alternative_trailing_string_comparisons", 1);
            if oa.is_ok() != ob.is_ok() {
                ctx.violate(Prop::C06, "locality/class-changed", || format!("{}: {} when followed by one {}-byte string, {} when followed by another of the same length", kind, oa.show(), trail.len(), ob.show()));
            } else if da != db {
                ctx.violate(Prop::C06, "locality/value-changed", || format!("{}: the parsed value / consumption / slice positions depend on the CONTENT of the {} bytes that follow the structure", kind, trail.len()));
            }
        }
    }
}

pub fn cell_name(id: u32) -> String {
    let k = structs::KINDS.get((id / 4) as usize).copied().unwrap_or("?");
    format!("{}/{}", k, ["Ok at exact end", "Ok with in-flight bytes behind", "Incomplete", "rejected"][(id % 4) as usize])
}
