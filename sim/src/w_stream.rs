//! World `stream` (W-TLS): peers -> record layer -> TCP-like byte pipe -> passive monitor.
//! The monitor (REAL code) re-parses its receive buffer at every delivery event.
//! Oracles: reference 5-byte framer at every cut point + Needed-driven reader liveness (C02),
//! sent-log vs delivered-log per record, one-step vs two-step (C03), many-parser vs explicit
//! loop (C16), locality under in-flight trailing bytes + provenance (C06), no-panic/heap (C01).

use crate::core::{Ctx, Prop};
use crate::enc;
use crate::gen;
use crate::item::{Item, Scenario};
use crate::prng::{mix_bytes, Rng};
use crate::res::{split, Class, Outcome};
use crate::val;
use crate::visit::{self, Slices};
use tls_parser::nom::error::ErrorKind;
use tls_parser::*;

pub const CAP: usize = 16640;

// ------------------------------------------------------------------ Phase A

fn push_msg(s: &mut Scenario, next_id: &mut u8, m: Item) -> u8 {
    let id = *next_id;
    *next_id += 1;
    s.push(m.int("_id", id as u64));
    id
}

/// constructively malformed first message for a content type (verdict certain)
/// A well-formed message of a kind whose body is fully accounted for by fixed-size fields and
/// length-prefixed vectors, with the LAST byte of the body removed and the message length adjusted:
/// the final field or vector then runs past the end of the message - malformed, whatever came before.
fn cut_structured(rng: &mut Rng) -> Vec<u8> {
    // (kinds whose LAST element is mandatory for this crate too: the optional extension block of the
    // hellos is removed first; draft-18 / HelloRetryRequest / NewSessionTicket are left out because
    // the crate reads their last element as optional resp. opaque)
    let kind = *rng.pick(&["client_hello", "server_hello", "certificate", "certificate_status", "next_protocol", "key_update"]);
    let m0 = gen::handshake(rng, kind, 120);
    let mut m = gen::rfc_valid(rng, m0);
    if kind == "client_hello" || kind == "server_hello" {
        m.set("ext", crate::item::Val::None);
    }
    let mut body = enc::hs_body(&m);
    body.pop();
    let mut v = vec![enc::hs_type(kind).unwrap_or(1)];
    enc::put_u24(&mut v, body.len() as u64);
    v.extend(body);
    v
}

fn malformed_first(rng: &mut Rng, ctype: u8) -> Vec<u8> {
    if ctype == 22 && rng.chance(1, 4) {
        return cut_structured(rng);
    }
    match ctype {
        20 => vec![*rng.pick(&[0u8, 2, 0x14, 0xff])],
        21 => vec![rng.u8()],
        22 if rng.chance(1, 3) => {
            // structurally invalid bodies with a certain verdict (rejected, never mis-decoded)
            let hello = |rng: &mut Rng, tail: &[u8]| -> Vec<u8> {
                let mut b = vec![3, 3];
                b.extend(rng.bytes(32));
                b.push(0); // no session id
                b.extend_from_slice(tail);
                let mut v = vec![1];
                enc::put_u24(&mut v, b.len() as u64);
                v.extend(b);
                v
            };
            match rng.below(7) {
                0 => {
                    // odd cipher-suite list length
                    let n = *rng.pick(&[1usize, 3, 5, 255]);
                    let mut t = vec![(n >> 8) as u8, n as u8];
                    t.extend(rng.bytes(n));
                    t.extend_from_slice(&[1, 0]);
                    hello(rng, &t)
                }
                1 => hello(rng, &[0, 8, 0xc0, 0x2b]),       // cipher list longer than the body
                2 => hello(rng, &[0, 2, 0xc0, 0x2b, 5, 0]), // compression list longer than the body
                3 => hello(rng, &[]),                        // mandatory fields cut off by the message length
                4 => vec![0x0b, 0, 0, 5, 0, 0, 9, 1, 2],     // certificate list longer than the body
                5 => vec![0x16, 0, 0, 6, 1, 0, 0, 9, 1, 2],  // status blob longer than the body
                _ => vec![0x02, 0, 0, 3, 3, 3, 0],           // ServerHello cut off inside the random
            }
        }
        22 => match rng.below(6) {
            0 => vec![0x0b, 0, 0, 7, 0, 0, 4, 0, 0],                                       // certificate entry cut short
            1 => match rng.below(3) {
                0 => vec![0x0e, 0, 0, 9, 1, 2],   // cut short
                1 => vec![*rng.pick(&[0x0eu8, 0x00, 0x05]), 1, 0, 0], // declared length 65536, nothing present
                _ => vec![*rng.pick(&[0x14u8, 0x18]), 0xff, 0, 1, 1, 2], // declared length 0xff0001, two bytes present
            },
            2 => vec![0x0b, 0, 1],                                                         // cut inside the header
            3 => {
                // ClientHello with session-id length 33
                let mut b = vec![3, 3];
                b.extend(rng.bytes(32));
                b.push(33);
                b.extend(rng.bytes(40));
                let mut v = vec![1];
                enc::put_u24(&mut v, b.len() as u64);
                v.extend(b);
                v
            }
            4 => {
                if rng.chance(1, 2) {
                    vec![0x04, 0, 0, 3, 1, 2, 3] // NewSessionTicket shorter than 4 bytes
                } else {
                    // ServerHello with session-id length 33 (RFC 5246: opaque SessionID<0..32>)
                    let mut b = vec![3, 3];
                    b.extend(rng.bytes(32));
                    b.push(33);
                    b.extend(rng.bytes(33));
                    b.extend_from_slice(&[0xc0, 0x2f, 0]);
                    let mut v = vec![2];
                    enc::put_u24(&mut v, b.len() as u64);
                    v.extend(b);
                    v
                }
            }
            _ => vec![0x10, 0, 1, 0, 1, 2, 3],                                            // ClientKeyExchange cut short
        },
        24 => match rng.below(3) {
            0 => vec![1],
            1 => vec![1, 0],
            _ => vec![1, 0, 9, 1, 2, 3], // payload_len beyond the record
        },
        _ => vec![],
    }
}

/// malformed message that may follow k>=1 good ones
fn malformed_tail(rng: &mut Rng, ctype: u8) -> Vec<u8> {
    if ctype == 22 && rng.chance(1, 2) {
        // any constructively malformed handshake message may also follow good ones
        return malformed_first(rng, 22);
    }
    match ctype {
        20 => vec![*rng.pick(&[0u8, 2, 0xff])],
        21 => vec![rng.u8()],
        22 => match rng.below(4) {
            0 => vec![0x14, 0, 0, 12, 1, 2, 3],
            1 => vec![0x0e, 0, 0, 9, 1, 2],
            2 => vec![*rng.pick(&[0x0eu8, 0x00, 0x05]), 1, 0, 0],
            _ => vec![0x14, 0],
        },
        _ => vec![],
    }
}

fn add(rng: &mut Rng, s: &mut Scenario, next_id: &mut u8, m: Item, ids: &mut Vec<u8>, total: &mut usize) -> bool {
    // the value oracle of C03 speaks of well-formed messages: RFC-valid values only
    let m = gen::rfc_valid(rng, m);
    let l = enc::tls_message(&m).len();
    if *total + l > CAP || ids.len() >= 200 {
        return false;
    }
    *total += l;
    let id = push_msg(s, next_id, m);
    ids.push(id);
    true
}

fn gen_record(rng: &mut Rng, s: &mut Scenario, next_id: &mut u8, batch: u64, budget: usize) {
    let ver = gen::version(rng) as u64;
    let ctype: u8 = match rng.below(12) {
        0..=5 => 22,
        6 => 20,
        7 => 21,
        8 | 9 => 23,
        _ => 24,
    };
    let mut ids = Vec::new();
    let mut total = 0usize;
    let crowd = rng.chance(1, 40);
    // band: decodable records of every content type with lengths between 2^14+1 and the cap
    let band = budget >= CAP && rng.chance(1, 4);
    match ctype {
        20 | 21 | 24 if band => {
            // (a heartbeat message is at most 2^14 bytes, RFC 6520: its band stops there)
            let n = if ctype == 24 { rng.urange(16000, 16384) } else { rng.urange(16385, CAP) };
            let m = match ctype {
                20 => Item::new("ccs").int("_rep", n as u64),
                21 => gen::alert(rng).int("_rep", (n / 2) as u64),
                _ => {
                    let plen = rng.urange(15000, n - 3);
                    Item::new("heartbeat").int("hbtype", 1).int("plen", plen as u64).bytes("payload", &rng.bytes(plen)).bytes("pad", &rng.bytes(n - 3 - plen))
                }
            };
            total += n / if ctype == 21 { 2 } else { 1 } * if ctype == 21 { 2 } else { 1 };
            let id = push_msg(s, next_id, m);
            ids.push(id);
        }
        22 if band => {
            // (a certificate chain: the one handshake body whose size the RFCs leave open)
            let want = rng.urange(16385, CAP) - 4 - 6;
            let mut cert = rng.bytes(want);
            cert[0] = 0x30;
            let m = Item::new("certificate").list("certs", vec![cert]);
            add(rng, s, next_id, m, &mut ids, &mut total);
        }
        20 | 21 | 22 if crowd => {
            // a crowded record: far more messages than any fixed small bound
            let n = match rng.below(3) {
                0 => *rng.pick(&[127u64, 128, 129, 255, 256, 257]),
                _ => rng.range(20, 700),
            };
            let m = match ctype {
                20 => Item::new("ccs"),
                21 => gen::alert(rng),
                _ => {
                    if rng.chance(1, 2) {
                        Item::new("hello_request")
                    } else {
                        let m = gen::handshake(rng, "key_update", 8);
                        gen::rfc_valid(rng, m)
                    }
                }
            };
            let l = enc::tls_message(&m).len();
            let n = n.min((CAP / l) as u64);
            total += l * n as usize;
            let id = push_msg(s, next_id, m.int("_rep", n));
            ids.push(id);
        }
        22 => {
            for _ in 0..rng.urange(1, 4) {
                let b = if rng.chance(1, 25) { rng.urange(200, budget.max(201)) } else { rng.urange(8, 160) };
                if *next_id >= 250 {
                    break;
                }
                let m = gen::any_handshake(rng, b);
                if !add(rng, s, next_id, m, &mut ids, &mut total) {
                    break;
                }
            }
        }
        20 => {
            for _ in 0..rng.urange(1, 3) {
                add(rng, s, next_id, Item::new("ccs"), &mut ids, &mut total);
            }
        }
        21 => {
            for _ in 0..rng.urange(1, 4) {
                let m = gen::alert(rng);
                add(rng, s, next_id, m, &mut ids, &mut total);
            }
        }
        23 => {
            let m = gen::appdata(rng, budget.min(CAP));
            add(rng, s, next_id, m, &mut ids, &mut total);
        }
        _ => {
            let m = gen::heartbeat(rng, budget.min(16384));
            add(rng, s, next_id, m, &mut ids, &mut total);
        }
    }
    let mut rec = Item::new("rec").int("type", ctype as u64).int("ver", ver);
    let mut x = "strict";
    if batch == 1 && rng.chance(1, 3) {
        // malformed-peer batch
        match rng.below(4) {
            0 if ctype != 23 => {
                // first message malformed / cut short / empty payload: nothing may be delivered
                ids.clear();
                let t = if rng.chance(1, 4) && ctype != 24 { Vec::new() } else { malformed_first(rng, ctype) };
                rec = rec.bytes("tail", &t);
                x = "reject";
            }
            1 => {
                // unknown content type
                // (25 and 26 are assigned by now - tls12_cid, ACK - and may gain support: unassigned values only)
                let t = *rng.pick(&[0u8, 1, 19, 27, 63, 0x80, 0xff]);
                rec.set("type", crate::item::Val::Int(t as u64));
                x = "reject";
            }
            _ if matches!(ctype, 20 | 21 | 22) && !ids.is_empty() => {
                let t = malformed_tail(rng, ctype);
                if total + t.len() <= CAP {
                    rec = rec.bytes("tail", &t);
                    x = "tail";
                }
            }
            _ => {}
        }
    }
    rec = rec.bytes("ms", &ids).str("x", x);
    s.push(rec);
}

fn gen_raw_record(rng: &mut Rng, s: &mut Scenario, allow_big: bool) {
    // framing batch: any content type, any version, boundary-biased declared lengths
    let t = gen::content_type_any(rng);
    let mut declared = if allow_big && rng.chance(1, 3) { gen::boundary_len(rng) as usize } else { rng.small_len(80) };
    if !allow_big && declared > 300 {
        declared = rng.small_len(80);
    }
    // how many payload bytes actually follow: usually all of them when within the cap
    let present = if declared > CAP {
        match rng.below(3) {
            0 => 0,
            1 => rng.small_len(64),
            _ => declared.min(20000),
        }
    } else {
        declared
    };
    let data = if rng.chance(1, 2) { vec![rng.u8(); present] } else { rng.bytes(present) };
    let mut rec = Item::new("rec").int("type", t as u64).int("ver", gen::version(rng) as u64).bytes("data", &data).str("x", "none");
    if present != declared {
        rec = rec.int("declen", declared as u64);
    }
    s.push(rec);
}

pub fn generate(rng: &mut Rng, prop: Prop) -> Scenario {
    let mut s = Scenario::new("stream");
    // batch: 0 strict, 1 malformed-peer, 2 framing (all content types, boundary lengths, length lies), 3 hostile channel
    let batch = match prop {
        Prop::C03 => rng.below(2),
        Prop::C02 | Prop::C16 => *rng.pick(&[0u64, 1, 2, 2, 2, 3]),
        Prop::C06 => *rng.pick(&[0u64, 0, 1, 2]),
        Prop::C01 => *rng.pick(&[0u64, 1, 2, 3, 3, 3]),
        _ => rng.below(3),
    };
    let big = rng.chance(1, 16);
    let reader = rng.below(3); // Needed-driven reader over: 0 raw, 1 plaintext, 2 encrypted
    let compaction = rng.below(2);
    s.push(Item::new("knob").int("batch", batch).int("reader", reader).int("compaction", compaction));

    let mut next_id = 0u8;
    // many-small: a long run of tiny records (the many-parsers' loop must not stop early or late)
    let many_small = !big && matches!(prop, Prop::C16 | Prop::C02 | Prop::C01) && rng.chance(1, 12);
    let mut huge = false;
    if many_small {
        let n = match rng.below(8) {
            0 | 1 => *rng.pick(&[15usize, 16, 17, 31, 32, 33, 63, 64, 65, 127, 128, 129, 255, 256, 257]),
            2 => *rng.pick(&[1023usize, 1024, 1025, 2048, 3000, 4097]),
            3 if prop == Prop::C16 && rng.chance(1, 24) => *rng.pick(&[8191usize, 8192, 8193, 16384, 32768, 65535, 65536, 65537, 70000]),
            _ => rng.urange(11, 300),
        };
        huge = n > 5000;
        for _ in 0..n {
            let (t, data): (u8, Vec<u8>) = match rng.below(5) {
                0 => (20, vec![1]),
                1 => (21, vec![rng.range(1, 2) as u8, rng.u8()]),
                2 => (23, Vec::new()),
                3 => (22, vec![0, 0, 0, 0]),
                _ => (23, vec![rng.u8()]),
            };
            s.push(Item::new("rec").int("type", t as u64).int("ver", gen::version(rng) as u64).bytes("data", &data).str("x", "none"));
        }
    }
    // over-cap: a decodable record just above the length cap, every byte of it present (both the
    // one-step parser and the raw step must treat it alike); it ends the conversation
    let over_cap = !big && rng.chance(1, 40);
    // bulk: more than 64 KiB in flight behind the record at the head of the buffer
    let bulk = big && rng.chance(1, 4);
    if bulk {
        for _ in 0..rng.urange(5, 9) {
            let n = *rng.pick(&[16640usize, 16384, 16000, 12000]);
            let t = *rng.pick(&[23u8, 23, 22, 24, 0x30]);
            let data = vec![rng.u8(); n];
            s.push(Item::new("rec").int("type", t as u64).int("ver", gen::version(rng) as u64).bytes("data", &data).str("x", "none"));
        }
    }
    let nrec = if big { rng.urange(1, 3) } else if many_small { rng.urange(0, 2) } else { rng.urange(1, 10 * crate::prng::depth()) };
    for _ in 0..nrec {
        if batch >= 2 && rng.chance(2, 3) {
            gen_raw_record(rng, &mut s, big);
        } else {
            let budget = if big { CAP } else { 400 };
            gen_record(rng, &mut s, &mut next_id, batch.min(1), budget);
        }
        // length-lie on a well-formed record (framing batch only)
        if batch == 2 && rng.chance(1, 8) {
            if let Some(r) = s.items.last_mut() {
                let lie = *rng.pick(&[0u64, 1, 2, 16640, 16641, 65535]);
                r.set("declen", crate::item::Val::Int(lie));
                r.set("x", crate::item::Val::Str("none".into()));
            }
        }
    }
    if over_cap {
        let n = match rng.below(3) {
            0 => *rng.pick(&[16641usize, 16642, 18431, 18432, 18433]),
            _ => rng.urange(16641, 19000),
        };
        let (t, data): (u8, Vec<u8>) = match rng.below(4) {
            0 => (20, vec![1; n]),
            1 => (21, [1u8, 0].repeat(n / 2)),
            2 => (24, {
                let mut v = vec![1u8, 0, 16];
                v.extend(rng.bytes(n - 3));
                v
            }),
            _ => (23, rng.bytes(n)),
        };
        let ver = *rng.pick(&[0x0300u16, 0x0301, 0x0302, 0x0303, 0x0304]);
        s.push(Item::new("rec").int("type", t as u64).int("ver", ver as u64).bytes("data", &data).str("x", "none"));
    }
    if batch >= 2 && rng.chance(1, 4) {
        // garbage injected behind the records
        let n = rng.small_len(40);
        s.push(Item::new("garbage").bytes("data", &rng.bytes(n)));
    }
    // total stream length (needed for the delivery plan)
    let total: usize = stream_len(&s);
    if batch == 3 {
        // hostile channel: corruptions at stream offsets
        for _ in 0..rng.urange(1, 4) {
            let at = rng.usize_below(total.max(1)) as u64;
            match rng.below(4) {
                0 | 1 => s.push(Item::new("flip").int("at", at).int("bit", rng.below(8))),
                2 => s.push(Item::new("dropbyte").int("at", at)),
                _ => {
                    let n = rng.urange(1, 4);
                    s.push(Item::new("insert").int("at", at).bytes("data", &rng.bytes(n)))
                }
            }
        }
    }
    // delivery schedule
    let mode = if huge { 3 } else if bulk { *rng.pick(&[3u64, 3, 2, 4]) } else if many_small { *rng.pick(&[2u64, 3, 3, 4]) } else if total > 3000 { *rng.pick(&[1u64, 2, 3, 4, 5, 5]) } else { rng.below(6) };
    let mut left = total + 8; // corruption may lengthen the stream slightly
    let mut segs: Vec<usize> = Vec::new();
    match mode {
        0 => segs = vec![1; left.min(6000)],                               // seg-dribble: every cut point
        1 => {
            while left > 0 && segs.len() < 6000 {
                let n = rng.urange(1, 7).min(left);
                segs.push(n);
                left -= n;
            }
        }
        2 => {
            while left > 0 {
                let n = (*rng.pick(&[536usize, 1460])).min(left);
                segs.push(n);
                left -= n;
            }
        }
        3 => {} // seg-whole: everything in the final event
        4 => {
            while left > 0 && segs.len() < 4000 {
                let n = rng.small_len(2000).max(1).min(left);
                segs.push(n);
                left -= n;
            }
        }
        _ => {
            // boundary-dribble: large steps, but single bytes around every record boundary
            let bounds = record_bounds(&s);
            let mut pos = 0usize;
            for b in bounds {
                for edge in [b.0, b.0 + 5, b.1] {
                    let lo = edge.saturating_sub(3);
                    if lo > pos {
                        segs.push(lo - pos);
                        pos = lo;
                    }
                    while pos < edge + 3 && pos < total {
                        segs.push(1);
                        pos += 1;
                    }
                }
            }
        }
    }
    for n in segs {
        s.push(Item::new("seg").int("n", n as u64));
    }
    if rng.chance(1, 6) {
        let at = match rng.below(3) {
            0 => rng.usize_below(total.max(1)),
            1 => {
                // inside a header or right behind it
                let b = record_bounds(&s);
                let r = *rng.pick(&b[..]);
                (r.0 + rng.urange(0, 8)).min(total)
            }
            _ => total.saturating_sub(rng.urange(0, 3)),
        };
        s.push(Item::new("eof").int("at", at as u64));
    }
    s
}

// ------------------------------------------------------------------ stream construction (shared by A and B)

#[derive(Clone, Debug)]
struct RecLayout {
    start: usize,
    end: usize, // as the sender intended: start + 5 + payload bytes actually present
    ctype: u8,
    x: String,
    /// message byte ranges inside the stream (absolute), with the message item index
    msgs: Vec<(usize, usize, usize)>,
    tail_start: usize,
    lied: bool,
    item: usize,
}

fn build_stream(scn: &Scenario) -> (Vec<u8>, Vec<RecLayout>) {
    let mut stream = Vec::new();
    let mut layout = Vec::new();
    for (ri, it) in scn.items.iter().enumerate() {
        match it.kind.as_str() {
            "rec" => {
                let start = stream.len();
                let mut payload = Vec::new();
                let mut msgs = Vec::new();
                if it.has("data") {
                    payload.extend_from_slice(it.b("data"));
                } else {
                    for id in it.b("ms") {
                        if let Some((mi, m)) = scn.items.iter().enumerate().find(|(_, m)| m.kind != "rec" && m.u_opt("_id") == Some(*id as u64) && m.has("_id")) {
                            let b = enc::tls_message(m);
                            for _ in 0..m.u_opt("_rep").unwrap_or(1).clamp(1, 20000) {
                                msgs.push((start + 5 + payload.len(), start + 5 + payload.len() + b.len(), mi));
                                payload.extend_from_slice(&b);
                            }
                        }
                    }
                }
                let tail_start = start + 5 + payload.len();
                payload.extend_from_slice(it.b("tail"));
                let declared = it.u_opt("declen").unwrap_or(payload.len() as u64);
                stream.extend(enc::tls_record(it.u("type") as u8, it.u("ver") as u16, declared, &payload));
                layout.push(RecLayout {
                    start,
                    end: stream.len(),
                    ctype: it.u("type") as u8,
                    x: it.s("x").to_string(),
                    msgs,
                    tail_start,
                    lied: declared != payload.len() as u64,
                    item: ri,
                });
            }
            "garbage" => stream.extend_from_slice(it.b("data")),
            _ => {}
        }
    }
    (stream, layout)
}

fn stream_len(scn: &Scenario) -> usize {
    build_stream(scn).0.len()
}

fn record_bounds(scn: &Scenario) -> Vec<(usize, usize)> {
    let (st, l) = build_stream(scn);
    let mut v: Vec<(usize, usize)> = l.iter().map(|r| (r.start, r.end)).collect();
    if v.is_empty() {
        v.push((0, st.len()));
    }
    v
}

// ------------------------------------------------------------------ reference framer (C02 oracle)

#[derive(Clone, Copy, Debug, PartialEq)]
enum Frame {
    NeedHeader,
    TooLarge,
    Partial { missing: usize },
    Complete { len: usize },
}

fn frame(b: &[u8]) -> (Frame, u8, u16, u16) {
    if b.len() < 5 {
        return (Frame::NeedHeader, 0, 0, 0);
    }
    let t = b[0];
    let ver = u16::from_be_bytes([b[1], b[2]]);
    let len = u16::from_be_bytes([b[3], b[4]]);
    let f = if len as usize > CAP {
        Frame::TooLarge
    } else if b.len() < 5 + len as usize {
        Frame::Partial { missing: 5 + len as usize - b.len() }
    } else {
        Frame::Complete { len: len as usize }
    };
    (f, t, ver, len)
}

struct Framed {
    out: Outcome,
    ctype: u8,
    ver: u16,
    len: u16,
    /// payload slice (raw/encrypted) relative to the buffer start: (offset, length)
    payload: Option<(i64, usize)>,
    /// remainder relative to buffer start
    rem: Option<(i64, usize)>,
    nmsgs: usize,
}

/// position of `s` relative to `base` as (offset, length). An empty slice has no bytes and
/// therefore no meaningful address: it is normalised to offset -1 and compared by length only.
fn rel(base: &[u8], s: &[u8]) -> (i64, usize) {
    if s.is_empty() {
        return (-1, 0);
    }
    (s.as_ptr() as i64 - base.as_ptr() as i64, s.len())
}

fn rel_is(got: Option<(i64, usize)>, off: usize, len: usize) -> bool {
    match got {
        Some((_, 0)) => len == 0,
        Some((o, l)) => o == off as i64 && l == len,
        None => false,
    }
}

fn check_framer(ctx: &mut Ctx, which: &'static str, b: &[u8], g: &Framed, trailing: bool) {
    let (f, t, ver, len) = frame(b);
    let pos_class: u32 = match f {
        Frame::NeedHeader => {
            if b.is_empty() {
                0
            } else {
                1
            }
        }
        Frame::TooLarge => 2,
        Frame::Partial { missing } => {
            if b.len() == 5 {
                3
            } else if missing == 1 {
                5
            } else {
                4
            }
        }
        Frame::Complete { len } => {
            if b.len() == 5 + len {
                6
            } else {
                7
            }
        }
    };
    let tclass: u32 = match t {
        20 => 0,
        21 => 1,
        22 => 2,
        23 => 3,
        24 => 4,
        _ => 5,
    };
    let lclass: u32 = match len {
        0 => 0,
        1..=3 => 1,
        4..=255 => 2,
        256..=16383 => 3,
        16384..=16640 => 4,
        _ => 5,
    };
    if b.len() >= 5 {
        ctx.cell("cut", (pos_class * 6 + tclass) * 6 + lclass);
    } else {
        ctx.cell("cut", (pos_class * 6 + 5) * 6);
    }
    let _ = trailing;
    let p = Prop::C02;
    let show = |g: &Framed| g.out.show();
    match f {
        Frame::NeedHeader => {
            if !g.out.is_incomplete() {
                ctx.violate(p, "framer/not-incomplete-on-prefix", || format!("{}: buffer of {} bytes (< 5) answered {}", which, b.len(), show(g)));
            }
        }
        Frame::TooLarge => {
            if !(g.out.is_rejection() && g.out.kind == Some(ErrorKind::TooLarge)) {
                ctx.violate(p, "framer/cap", || format!("{}: declared length {} > 16640 with {} bytes buffered answered {} (expected Error(TooLarge))", which, len, b.len(), show(g)));
            }
        }
        Frame::Partial { missing } => {
            if !g.out.is_incomplete() {
                ctx.violate(p, "framer/not-incomplete-on-prefix", || format!("{}: type {} declared length {} with only {} bytes buffered answered {}", which, t, len, b.len(), show(g)));
            } else if g.out.needed != Some(Some(missing)) {
                ctx.violate(p, "framer/needed-mismatch", || format!("{}: declared length {}, {} bytes buffered: {} but {} bytes are missing", which, len, b.len(), show(g), missing));
            }
        }
        Frame::Complete { len: l } => {
            if g.out.is_incomplete() {
                ctx.violate(p, format!("framer/incomplete-on-complete-record/0x{:02x}", t), || {
                    format!("{}: complete record (type {}, declared length {}, {} bytes buffered) answered {}", which, t, l, b.len(), show(g))
                });
            } else if which != "parse_tls_plaintext" && !g.out.is_ok() {
                ctx.violate(p, "framer/rejected-frameable-record", || format!("{}: record of declared length {} <= cap answered {}", which, l, show(g)));
            }
            if g.out.is_ok() {
                if g.ctype != t || g.ver != ver || g.len != len {
                    ctx.violate(p, "framer/header-field", || {
                        format!("{}: header decoded as type {} version {:#06x} length {}, wire says type {} version {:#06x} length {}", which, g.ctype, g.ver, g.len, t, ver, len)
                    });
                }
                if let Some(pl) = g.payload {
                    if !rel_is(Some(pl), 5, l) {
                        ctx.violate(p, "framer/payload-range", || format!("{}: payload is buffer[{}..+{}], expected buffer[5..+{}]", which, pl.0, pl.1, l));
                    }
                }
                if !rel_is(g.rem, 5 + l, b.len() - 5 - l) {
                    ctx.violate(p, "framer/remainder", || format!("{}: remainder is {:?} (offset, len) relative to the buffer, expected ({}, {})", which, g.rem, 5 + l, b.len() - 5 - l));
                }
            }
        }
    }
}

fn call_raw(ctx: &mut Ctx, b: &[u8]) -> Option<Framed> {
    ctx.call("parse_tls_raw_record", b.len(), 0, || {
        let (out, v) = split(parse_tls_raw_record(b));
        match v {
            Some((rem, r)) => {
                let _ = format!("{:?}", r);
                Framed { out, ctype: r.hdr.record_type.0, ver: r.hdr.version.0, len: r.hdr.len, payload: Some(rel(b, r.data)), rem: Some(rel(b, rem)), nmsgs: 0 }
            }
            None => Framed { out, ctype: 0, ver: 0, len: 0, payload: None, rem: None, nmsgs: 0 },
        }
    })
}

fn call_enc(ctx: &mut Ctx, b: &[u8]) -> Option<Framed> {
    ctx.call("parse_tls_encrypted", b.len(), 0, || {
        let (out, v) = split(parse_tls_encrypted(b));
        match v {
            Some((rem, r)) => {
                let _ = format!("{:?}", r);
                Framed { out, ctype: r.hdr.record_type.0, ver: r.hdr.version.0, len: r.hdr.len, payload: Some(rel(b, r.msg.blob)), rem: Some(rel(b, rem)), nmsgs: 0 }
            }
            None => Framed { out, ctype: 0, ver: 0, len: 0, payload: None, rem: None, nmsgs: 0 },
        }
    })
}

struct Plain {
    fr: Framed,
    msgs: Vec<Item>,
    slices: Slices,
}

fn call_plain(ctx: &mut Ctx, entry: &'static str, b: &[u8], deprecated_alias: bool) -> Option<Plain> {
    ctx.call(entry, b.len(), 0, || {
        #[allow(deprecated)]
        let r = if deprecated_alias { tls_parser(b) } else { parse_tls_plaintext(b) };
        let (out, v) = split(r);
        match v {
            Some((rem, r)) => crate::guard::unmetered(|| {
                let _ = format!("{:?}", r);
                let mut sl = Slices::new();
                visit::messages(&mut sl, &r.msg);
                Plain {
                    fr: Framed { out, ctype: r.hdr.record_type.0, ver: r.hdr.version.0, len: r.hdr.len, payload: None, rem: Some(rel(b, rem)), nmsgs: r.msg.len() },
                    msgs: r.msg.iter().map(val::msg_to_item).collect(),
                    slices: sl,
                }
            }),
            None => Plain { fr: Framed { out, ctype: 0, ver: 0, len: 0, payload: None, rem: None, nmsgs: 0 }, msgs: vec![], slices: vec![] },
        }
    })
}

/// header-only parser: named only in the anchors, not in C02's statement (which names the three
/// record parsers), so it is exercised under the no-panic invariant and not constrained further
fn check_header_parser(ctx: &mut Ctx, b: &[u8]) {
    let _ = ctx.call("parse_tls_record_header", b.len(), 0, || {
        let (out, v) = split(parse_tls_record_header(b));
        (out, v.map(|(rem, h)| (rel(b, rem), h.record_type.0, h.version.0, h.len)))
    });
}

// ------------------------------------------------------------------ C16: many-parser vs explicit loop

fn check_many(ctx: &mut Ctx, b: &[u8]) {
    // explicit loop L over the single-record parser
    let mut off = 0usize;
    let mut l_items: Vec<(u8, u16, u16, Vec<Item>)> = Vec::new();
    loop {
        let sub = &b[off..];
        let r = ctx.call("parse_tls_plaintext", sub.len(), 0, || {
            let (out, v) = split(parse_tls_plaintext(sub));
            (out, v.map(|(rem, r)| crate::guard::unmetered(|| (sub.len() - rem.len(), r.hdr.record_type.0, r.hdr.version.0, r.hdr.len, r.msg.iter().map(val::msg_to_item).collect::<Vec<_>>()))))
        });
        match r {
            Some((out, Some((used, t, v, l, msgs)))) if out.is_ok() && used > 0 => {
                l_items.push((t, v, l, msgs));
                off += used;
                if l_items.len() > 100_000 {
                    break;
                }
            }
            _ => break,
        }
    }
    let many = ctx.call("tls_parser_many", b.len(), 0, || {
        let (out, v) = split(tls_parser_many(b));
        (
            out,
            v.map(|(rem, rs)| crate::guard::unmetered(|| {
                let _ = format!("{:?}", rs);
                (rel(b, rem), rs.iter().map(|r| (r.hdr.record_type.0, r.hdr.version.0, r.hdr.len, r.msg.iter().map(val::msg_to_item).collect::<Vec<_>>())).collect::<Vec<_>>())
            })),
        )
    });
    let (out, v) = match many {
        Some(x) => x,
        None => return,
    };
    ctx.log(0x16, out.code(), l_items.len() as u64);
    ctx.cell("many", (l_items.len().min(3) as u32) * 4 + if off == b.len() { 0 } else if b.len() - off < 5 { 1 } else { 2 });
    if l_items.is_empty() {
        if out.is_ok() {
            ctx.violate(Prop::C16, "many/fails-iff", || format!("tls_parser_many succeeded on a {}-byte buffer whose first record does not parse", b.len()));
        }
        return;
    }
    match v {
        None => ctx.violate(Prop::C16, "many/fails-iff", || format!("tls_parser_many answered {} although the first {} record(s) parse", out.show(), l_items.len())),
        Some((rem, recs)) => {
            if recs != l_items {
                ctx.violate(Prop::C16, "many/list", || format!("tls_parser_many returned {} record(s), the explicit loop {} (or their contents differ)", recs.len(), l_items.len()));
            } else if !rel_is(Some(rem), off, b.len() - off) {
                ctx.violate(Prop::C16, "many/remainder", || format!("tls_parser_many remainder {:?} (offset, len), the loop stops at offset {} of {}", rem, off, b.len()));
            }
        }
    }
}

fn check_alias(ctx: &mut Ctx, b: &[u8], p: &Plain) {
    if let Some(a) = call_plain(ctx, "tls_parser", b, true) {
        if a.fr.out != p.fr.out || a.msgs != p.msgs || a.fr.rem != p.fr.rem || (a.fr.ctype, a.fr.ver, a.fr.len) != (p.fr.ctype, p.fr.ver, p.fr.len) {
            ctx.violate(Prop::C16, "many/alias-tls_parser", || format!("tls_parser answered {} / {} msgs, parse_tls_plaintext {} / {} msgs on the same {}-byte buffer", a.fr.out.show(), a.msgs.len(), p.fr.out.show(), p.msgs.len(), b.len()));
        }
    }
}

// ------------------------------------------------------------------ Phase B

pub fn execute(scn: &Scenario, ctx: &mut Ctx) {
    let knob = scn.knob().cloned().unwrap_or_else(|| Item::new("knob"));
    let (mut stream, layout) = build_stream(scn);
    let mut corrupted = false;
    for it in &scn.items {
        let at = it.u("at") as usize;
        match it.kind.as_str() {
            "flip" if at < stream.len() => {
                stream[at] ^= 1 << (it.u("bit") & 7);
                corrupted = true;
                ctx.fault("bitflip");
            }
            "dropbyte" if at < stream.len() => {
                stream.remove(at);
                corrupted = true;
                ctx.fault("byte-drop");
            }
            "insert" if at <= stream.len() => {
                let d = it.b("data").to_vec();
                stream.splice(at..at, d);
                corrupted = true;
                ctx.fault("byte-insert");
            }
            "garbage" => ctx.fault("garbage-inject"),
            _ => {}
        }
    }
    let eof = scn.items.iter().find(|i| i.kind == "eof").map(|i| (i.u("at") as usize).min(stream.len()));
    let limit = eof.unwrap_or(stream.len());
    if eof.is_some() && limit < stream.len() {
        ctx.fault("eof");
    }
    if layout.len() >= 2 {
        ctx.nontrivial = true;
    }
    if layout.len() > 10 {
        ctx.fault("many-small-records");
    }
    if stream.len() > 70_000 {
        ctx.fault("bulk-inflight-64k");
    }
    for r in &layout {
        if r.lied {
            ctx.fault("length-lie");
        }
        match r.x.as_str() {
            "reject" => ctx.fault("malformed-first"),
            "tail" => ctx.fault("malformed-tail"),
            _ => {}
        }
        if r.msgs.len() > 1 {
            ctx.fault("coalesce");
        }
        if r.msgs.len() > 16 {
            ctx.fault("crowded-record");
        }
    }
    let small = stream.len() <= 3000;
    let copy_policy = knob.u("compaction") == 1 && stream.len() <= 8192;
    let reader_kind = knob.u("reader");

    let mut st = Mon {
        n_framer: 0,
        n_many: 0,
        n_strict: 0,
        n_reject: 0,
        n_tail: 0,
        n_local: 0,
        head: 0,
        dead: false,
        framing_lost: corrupted,
        emitted: 0,
        r_head: 0,
        r_sleep_until: 0,
        r_emitted: 0,
        r_dead: false,
        delivered_msgs: 0,
    };
    let mut delivered = 0usize;
    let segs: Vec<usize> = scn.items.iter().filter(|i| i.kind == "seg").map(|i| i.u("n") as usize).collect();
    let mut nev = 0u64;
    let mut dribbled = false;
    for n in segs.iter().copied().chain(std::iter::once(usize::MAX)) {
        if delivered >= limit && n != usize::MAX {
            continue;
        }
        let nd = if n == usize::MAX { limit } else { (delivered + n).min(limit) };
        if n == 1 {
            dribbled = true;
        }
        let is_final = n == usize::MAX;
        if nd == delivered && !(is_final && nev == 0) {
            continue;
        }
        delivered = nd;
        nev += 1;
        ctx.sim_time_us += 100;
        ctx.log(0x5e6, delivered as u64, st.head as u64);
        on_delivery(ctx, &stream, &layout, scn, delivered, &mut st, small, copy_policy, reader_kind, limit);
    }
    if dribbled {
        ctx.fault("seg-dribble");
    }
    // reach: records whose every cut point 0..=5+len was a delivery event of this run
    let full_dribble = !segs.is_empty() && segs.iter().all(|&n| n == 1) && segs.len() >= limit;
    ctx.count("oracle/framer_comparisons", st.n_framer);
    ctx.count("oracle/many_vs_loop_evaluations", st.n_many);
    ctx.count("oracle/records_compared_with_sent_log(strict)", st.n_strict);
    ctx.count("oracle/records_with_certain_rejection", st.n_reject);
    ctx.count("oracle/records_with_malformed_tail", st.n_tail);
    ctx.count("oracle/record_locality_reparses", st.n_local);
    ctx.count("records_delivered", st.emitted);
    ctx.count("delivery_events", nev);
    if full_dribble {
        ctx.count("records_with_every_cut_point_enumerated", st.emitted);
        ctx.count("cut_points_enumerated", limit as u64 + 1);
    }
    if nev >= 2 {
        ctx.nontrivial = true;
    }

    // end of history: liveness and conservation over an undamaged, fully delivered conversation
    let undamaged = !corrupted && eof.map(|e| e >= stream.len()).unwrap_or(true);
    // the reference framer's own record count (independent of sender layout)
    let mut off = 0;
    let mut expect = 0u64;
    loop {
        match frame(&stream[off..limit]).0 {
            Frame::Complete { len } => {
                expect += 1;
                off += 5 + len;
            }
            _ => break,
        }
    }
    if st.emitted != expect {
        let e = st.emitted;
        ctx.violate(Prop::C02, "reader/stall", || format!("re-parsing monitor emitted {} records, the reference framer finds {} complete records in the {} delivered bytes", e, expect, limit));
    }
    if st.r_emitted != expect {
        let e = st.r_emitted;
        ctx.violate(Prop::C02, "reader/stall", || {
            format!("Needed-driven reader (kind {}) emitted {} records within the event bound, the reference framer finds {} complete records in the {} delivered bytes", reader_kind, e, expect, limit)
        });
    }
    if undamaged && !st.framing_lost {
        // conservation: every sent message of the strict records delivered exactly once, in order
        let sent: u64 = layout.iter().filter(|r| r.x == "strict" || r.x == "tail").map(|r| r.msgs.len() as u64).sum();
        let all_framable = layout.iter().all(|r| !r.lied);
        if all_framable && st.delivered_msgs != sent && layout.iter().all(|r| r.x != "none") {
            let d = st.delivered_msgs;
            ctx.violate(Prop::C03, "delivery/missing", || format!("{} messages sent in deliverable records, {} delivered over the whole history", sent, d));
        }
    }
    ctx.trace(0xe0d, st.emitted, stream.len());
}

struct Mon {
    n_framer: u64,
    n_many: u64,
    n_strict: u64,
    n_reject: u64,
    n_tail: u64,
    n_local: u64,
    head: usize,
    dead: bool,
    framing_lost: bool,
    emitted: u64,
    r_head: usize,
    r_sleep_until: usize,
    r_emitted: u64,
    r_dead: bool,
    delivered_msgs: u64,
}

#[allow(clippy::too_many_arguments)]
fn on_delivery(ctx: &mut Ctx, stream: &[u8], layout: &[RecLayout], scn: &Scenario, delivered: usize, st: &mut Mon, small: bool, copy_policy: bool, reader_kind: u64, limit: usize) {
    // C16 on the whole receive buffer (all records so far + the partial tail) for small streams,
    // else on the unconsumed part
    if ctx.on(Prop::C16) || ctx.on(Prop::C01) {
        let mstart = if small { 0 } else { st.head };
        check_many(ctx, &stream[mstart..delivered]);
        st.n_many += 1;
    }
    let mut first = true;
    loop {
        let owned: Vec<u8>;
        let buf: &[u8] = if copy_policy {
            owned = stream[st.head..delivered].to_vec();
            &owned
        } else {
            &stream[st.head..delivered]
        };
        let trailing = matches!(frame(buf).0, Frame::Complete { len } if buf.len() > 5 + len);
        if trailing {
            ctx.fault("trailing-inflight");
        }
        let raw = call_raw(ctx, buf);
        let plain = call_plain(ctx, "parse_tls_plaintext", buf, false);
        if ctx.on(Prop::C02) || ctx.on(Prop::C01) {
            st.n_framer += 3;
            if let Some(r) = &raw {
                check_framer(ctx, "parse_tls_raw_record", buf, r, trailing);
            }
            if let Some(e) = call_enc(ctx, buf) {
                check_framer(ctx, "parse_tls_encrypted", buf, &e, trailing);
            }
            if let Some(p) = &plain {
                check_framer(ctx, "parse_tls_plaintext", buf, &p.fr, trailing);
            }
            if first {
                check_header_parser(ctx, buf);
            }
        }
        if let (true, Some(p)) = (ctx.on(Prop::C16), &plain) {
            check_alias(ctx, buf, p);
        }
        first = false;
        let (raw, plain) = match (raw, plain) {
            (Some(r), Some(p)) => (r, p),
            _ => {
                st.dead = true;
                break;
            }
        };
        // C03 "one-step parsing agrees with two-step parsing (raw record, then ...)": a record the
        // one-step parser decodes is a record the raw step frames (whatever its length or version)
        if ctx.on(Prop::C03) && plain.fr.out.is_ok() && raw.out.is_rejection() {
            let (_, t, ver, len) = frame(buf);
            ctx.violate(Prop::C03, "delivery/one-vs-two-step", || format!("type {} version {:#06x} length {}: parse_tls_plaintext decoded {} message(s), parse_tls_raw_record answered {}", t, ver, len, plain.msgs.len(), raw.out.show()));
        }
        ctx.log(0x7a, raw.out.code(), plain.fr.out.code());
        ctx.trace(0x7a + ((frame(buf).1 as u64) << 8), raw.out.code() & 0xfffff ^ (plain.fr.out.code() & 0xfffff) << 20, buf.len());
        if !raw.out.is_ok() {
            break;
        }
        // ---- a record has been framed: per-record oracles
        let used = 5 + raw.len as usize;
        if used > buf.len() || used == 0 {
            break; // framing oracle has already reported; do not index out of range
        }
        let lay = if st.framing_lost { None } else { layout.iter().find(|r| r.start == st.head) };
        match lay {
            Some(l) if l.end == st.head + used && !l.lied => {
                record_oracles(ctx, stream, scn, l, buf, used, &plain, st, delivered, limit);
            }
            Some(_) | None => {
                st.framing_lost = true;
            }
        }
        // C06 without sender knowledge: b vs b++x
        locality(ctx, stream, st.head, buf, used, &plain, limit);
        st.n_local += ctx.on(Prop::C06) as u64;
        st.emitted += 1;
        st.head += used;
    }

    // Needed-driven reader: sleeps until exactly the announced number of bytes has arrived
    if !st.r_dead {
        loop {
            if delivered < st.r_sleep_until {
                // must never sleep while a complete record is buffered
                if let Frame::Complete { len } = frame(&stream[st.r_head..delivered]).0 {
                    ctx.violate(Prop::C02, "reader/stall", || {
                        format!("Needed-driven reader sleeps until {} bytes have arrived although a complete record ({} payload bytes) is buffered at offset {} with {} bytes delivered", st.r_sleep_until, len, st.r_head, delivered)
                    });
                    st.r_dead = true;
                }
                break;
            }
            let b = &stream[st.r_head..delivered];
            let fr = match reader_kind {
                1 => call_plain(ctx, "parse_tls_plaintext", b, false).map(|p| p.fr),
                2 => call_enc(ctx, b),
                _ => call_raw(ctx, b),
            };
            let fr = match fr {
                Some(f) => f,
                None => {
                    st.r_dead = true;
                    break;
                }
            };
            match (fr.out.class, fr.out.needed) {
                (Class::Ok, _) => {
                    st.r_emitted += 1;
                    let used = 5 + fr.len as usize;
                    if used > b.len() {
                        st.r_dead = true;
                        break;
                    }
                    st.r_head += used;
                }
                (Class::Incomplete, Some(Some(n))) => {
                    // before the 5 header bytes are there the Needed value is unconstrained: such a reader
                    // simply waits for more data and asks again
                    if b.len() >= 5 {
                        st.r_sleep_until = delivered + n;
                    }
                    break;
                }
                (Class::Incomplete, _) => break,
                _ => {
                    // rejected record: a plaintext reader skips it using the frame, raw/encrypted stop
                    if reader_kind == 1 {
                        if let Frame::Complete { len } = frame(b).0 {
                            st.r_emitted += 1;
                            st.r_head += 5 + len;
                            continue;
                        }
                    }
                    break;
                }
            }
        }
    }
}

#[allow(clippy::too_many_arguments)]
fn record_oracles(ctx: &mut Ctx, stream: &[u8], scn: &Scenario, l: &RecLayout, buf: &[u8], used: usize, plain: &Plain, st: &mut Mon, _delivered: usize, _limit: usize) {
    let _ = stream;
    let payload = &buf[5..used];
    // two-step pipeline: raw record, then parse_tls_record_with_header
    let (_, t, ver, len) = frame(buf);
    let hdr = val::mk_header(t, ver, len);
    let two = ctx.call("parse_tls_record_with_header", payload.len(), 0, || {
        let (out, v) = split(parse_tls_record_with_header(payload, &hdr));
        match v {
            Some((rem, msgs)) => crate::guard::unmetered(|| {
                let _ = format!("{:?}", msgs);
                let mut sl = Slices::new();
                visit::messages(&mut sl, &msgs);
                (out, msgs.iter().map(val::msg_to_item).collect::<Vec<_>>(), Some(rel(payload, rem)), sl)
            }),
            None => (out, vec![], None, vec![]),
        }
    });
    let (two_out, two_msgs, two_rem, two_sl) = match two {
        Some(x) => x,
        None => return,
    };
    let one_out = plain.fr.out;
    let expected: Vec<Item> = l.msgs.iter().map(|(_, _, mi)| val::canon(&scn.items[*mi])).collect();
    let canon_list = |v: &[Item]| v.iter().map(val::canon).collect::<Vec<_>>();
    ctx.cell("rec", (match l.ctype { 20 => 0, 21 => 1, 22 => 2, 23 => 3, 24 => 4, _ => 5 }) * 3 + match l.x.as_str() { "strict" => 0, "reject" => 1, _ => 2 });
    let p = Prop::C03;
    match l.x.as_str() {
        "strict" | "tail" if !expected.is_empty() => {
            let is_tail = l.x == "tail" && l.tail_start < l.end;
            if is_tail {
                st.n_tail += 1;
            } else {
                st.n_strict += 1;
            }
            for (name, out, msgs) in [("parse_tls_plaintext", one_out, &plain.msgs), ("parse_tls_record_with_header", two_out, &two_msgs)] {
                if !out.is_ok() {
                    ctx.violate(p, format!("delivery/rejected/{}", l.ctype), || {
                        format!("{}: record of type {} carrying {} well-formed message(s) [{}] answered {}", name, l.ctype, expected.len(), val::clip(&expected.iter().map(|m| m.kind.clone()).collect::<Vec<_>>().join(",")), out.show())
                    });
                    continue;
                }
                let got = canon_list(msgs);
                if got.len() < expected.len() {
                    ctx.violate(p, "delivery/missing", || format!("{}: {} messages sent in the record, {} delivered", name, expected.len(), got.len()));
                } else if got.len() > expected.len() {
                    ctx.violate(p, "delivery/extra", || format!("{}: {} messages sent in the record, {} delivered", name, expected.len(), got.len()));
                } else if let Some(i) = (0..got.len()).find(|&i| !val::equiv(&expected[i], &got[i])) {
                    if got.iter().any(|g| *g == expected[i]) && got[i].kind != expected[i].kind {
                        ctx.violate(p, "delivery/order", || format!("{}: message {} out of order: {}", name, i, val::diff(&expected[i], &got[i])));
                    } else {
                        ctx.violate(p, format!("delivery/value/{}", expected[i].kind), || format!("{}: message {} of the record: {}", name, i, val::diff(&expected[i], &got[i])));
                    }
                }
            }
            if one_out.is_ok() {
                st.delivered_msgs += plain.msgs.len() as u64;
            }
            // two-step remainder: the undecoded tail, by address
            if two_out.is_ok() {
                let want = if is_tail {
                    (l.tail_start - l.start - 5, l.end - l.tail_start)
                } else if l.ctype == 24 {
                    // whether heartbeat padding is consumed or handed back is not stated: accept what it is
                    two_rem.map(|r| (if r.1 == 0 { 0 } else { r.0 as usize }, r.1)).unwrap_or((0, 0))
                } else {
                    (payload.len(), 0)
                };
                if !rel_is(two_rem, want.0, want.1) {
                    ctx.violate(p, "tail/remainder", || format!("parse_tls_record_with_header: remainder {:?} (offset, len) relative to the payload, expected {:?}", two_rem, want));
                }
            }
        }
        "reject" => {
            st.n_reject += 1;
            if !one_out.is_rejection() {
                ctx.violate(p, format!("reject/one-step/{}", l.ctype), || format!("parse_tls_plaintext: record of type {} with a malformed/empty/unknown payload ({} bytes) answered {}", l.ctype, payload.len(), one_out.show()));
            }
            if two_out.is_ok() {
                ctx.violate(p, format!("reject/two-step/{}", l.ctype), || format!("parse_tls_record_with_header: type {} malformed payload ({} bytes) yielded {} message(s)", l.ctype, payload.len(), two_msgs.len()));
            }
        }
        _ => {}
    }
    // one-step and two-step agree (class, messages, error kind)
    if l.x != "none" {
        let agree = if one_out.is_ok() || two_out.is_ok() {
            one_out.class == two_out.class && canon_list(&plain.msgs) == canon_list(&two_msgs)
        } else {
            // both reject: that is agreement (the statement does not name error kinds)
            true
        };
        if !agree {
            ctx.violate(p, "delivery/one-vs-two-step", || {
                format!("type {}: parse_tls_plaintext answered {} ({} msgs), raw record + parse_tls_record_with_header answered {} ({} msgs)", l.ctype, one_out.show(), plain.msgs.len(), two_out.show(), two_msgs.len())
            });
        }
    }
    // C06 with sender knowledge: every slice inside its own message's byte range
    if ctx.on(Prop::C06) && l.x == "strict" {
        let base = buf.as_ptr() as usize;
        for (which, sl, n) in [("parse_tls_plaintext", &plain.slices, plain.msgs.len()), ("parse_tls_record_with_header", &two_sl, two_msgs.len())] {
            if n != l.msgs.len() {
                continue;
            }
            // re-walk per message to attribute slices: slices are pushed in message order, so
            // attribute by containment in any message range and require that range to be "its own"
            for (p0, len0, label) in sl.iter() {
                if *len0 == 0 {
                    continue;
                }
                let off = *p0 as i64 - base as i64;
                let s = l.start as i64;
                let inside_some = l.msgs.iter().any(|(a, b, _)| off + s >= *a as i64 && off + s + *len0 as i64 <= *b as i64);
                if !inside_some {
                    ctx.violate(Prop::C06, "provenance/outside-container", || {
                        format!("{}: slice `{}` (buffer offset {}, {} bytes) is not contained in the byte range of any single message of the record (ranges {:?} relative to the stream, record at {})", which, label, off, len0, l.msgs.iter().map(|m| (m.0, m.1)).collect::<Vec<_>>(), l.start)
                    });
                }
            }
        }
    }
}

/// C06 at record level, no sender knowledge needed: parse the exact extent, the buffer as
/// delivered (record + in-flight bytes), and the record followed by the whole rest of the stream.
fn locality(ctx: &mut Ctx, stream: &[u8], head: usize, buf: &[u8], used: usize, plain: &Plain, limit: usize) {
    if !ctx.on(Prop::C06) {
        return;
    }
    let exact = &buf[..used];
    let rest = &stream[head..limit.max(head + used).min(stream.len())];
    for (name, b) in [("exact", exact), ("whole-rest", rest)] {
        if b.len() == buf.len() {
            continue;
        }
        if let Some(p) = call_plain(ctx, "parse_tls_plaintext", b, false) {
            let same_outcome = p.fr.out == plain.fr.out || (p.fr.out.is_rejection() && plain.fr.out.is_rejection());
            if !same_outcome {
                ctx.violate(Prop::C06, "locality/class-changed", || format!("parse_tls_plaintext: {} with {} bytes buffered, {} on the {} input of {} bytes (record extent {})", plain.fr.out.show(), buf.len(), p.fr.out.show(), name, b.len(), used));
            } else if p.msgs != plain.msgs || (p.fr.ctype, p.fr.ver, p.fr.len) != (plain.fr.ctype, plain.fr.ver, plain.fr.len) {
                ctx.violate(Prop::C06, "locality/value-changed", || format!("parse_tls_plaintext: parsed value differs between {} bytes buffered and the {} input of {} bytes", buf.len(), name, b.len()));
            } else if p.fr.out.is_ok() && !rel_is(p.fr.rem, used, b.len() - used) {
                ctx.violate(Prop::C06, "locality/remainder-not-suffix", || format!("parse_tls_plaintext on the {} input: remainder {:?}, expected ({}, {})", name, p.fr.rem, used, b.len() - used));
            }
        }
        if let Some(r) = call_raw(ctx, b) {
            if !r.out.is_ok() || !rel_is(r.payload, 5, used - 5) || !rel_is(r.rem, used, b.len() - used) {
                ctx.violate(Prop::C06, "locality/remainder-not-suffix", || format!("parse_tls_raw_record on the {} input of {} bytes: {} payload {:?} remainder {:?}", name, b.len(), r.out.show(), r.payload, r.rem));
            }
        }
    }
    // provenance: every slice of the value inside the consumed payload region of the caller's buffer
    if plain.fr.out.is_ok() {
        if let Some((_, label, off, l)) = visit::first_outside(&plain.slices, buf.as_ptr() as usize + 5, used - 5) {
            ctx.violate(Prop::C06, "provenance/outside-consumed", || { let _ = off; format!("parse_tls_plaintext: slice `{}` ({} bytes) lies outside the record's {} payload bytes", label, l, used - 5) });
        }
        if !rel_is(plain.fr.rem, used, buf.len() - used) {
            ctx.violate(Prop::C06, "locality/remainder-not-suffix", || format!("parse_tls_plaintext: remainder {:?}, expected ({}, {})", plain.fr.rem, used, buf.len() - used));
        }
    }
    let _ = mix_bytes(0, &[]);
}

pub fn cell_name(space: &str, id: u32) -> String {
    match space {
        "cut" => {
            let l = id % 6;
            let t = (id / 6) % 6;
            let p = id / 36;
            let p = ["empty", "inside-header", "oversize-header", "header-only", "mid-payload", "one-byte-missing", "complete-exact", "complete+inflight"].get(p as usize).copied().unwrap_or("?");
            let t = ["ccs", "alert", "handshake", "appdata", "heartbeat", "other/unknown"][t as usize];
            let l = ["len0", "len1-3", "len4-255", "len256-16383", "len16384-16640", "len>16640"][l as usize];
            format!("{}/{}/{}", p, t, l)
        }
        "rec" => {
            let x = id % 3;
            let t = id / 3;
            format!("{}/{}", ["ccs", "alert", "handshake", "appdata", "heartbeat", "unknown"].get(t as usize).copied().unwrap_or("?"), ["strict", "reject", "malformed-tail"][x as usize])
        }
        "many" => {
            let tail = id % 4;
            let n = id / 4;
            format!("{} records/{}", if n == 3 { "3+".to_string() } else { n.to_string() }, ["nothing behind", "partial header behind", "partial/garbage/oversize behind", "?"][tail as usize])
        }
        _ => format!("{}#{}", space, id),
    }
}
