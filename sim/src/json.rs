//! Minimal JSON value, writer and reader (no external crates are available offline for this).

use std::fmt::Write as _;

#[derive(Clone, Debug, PartialEq)]
pub enum J {
    Null,
    Bool(bool),
    Int(i64),
    Num(f64),
    Str(String),
    Arr(Vec<J>),
    Obj(Vec<(String, J)>),
}

impl J {
    pub fn obj() -> J {
        J::Obj(Vec::new())
    }
    pub fn put(mut self, k: &str, v: J) -> J {
        if let J::Obj(o) = &mut self {
            o.push((k.to_string(), v));
        }
        self
    }
    pub fn s(v: impl Into<String>) -> J {
        J::Str(v.into())
    }
    pub fn i(v: u64) -> J {
        J::Int(v as i64)
    }
    pub fn strs<I: IntoIterator<Item = S>, S: Into<String>>(v: I) -> J {
        J::Arr(v.into_iter().map(|s| J::Str(s.into())).collect())
    }
    pub fn get(&self, k: &str) -> Option<&J> {
        match self {
            J::Obj(o) => o.iter().find(|(n, _)| n == k).map(|(_, v)| v),
            _ => None,
        }
    }
    pub fn as_str(&self) -> Option<&str> {
        match self {
            J::Str(s) => Some(s),
            _ => None,
        }
    }
    pub fn as_arr(&self) -> &[J] {
        match self {
            J::Arr(a) => a,
            _ => &[],
        }
    }

    pub fn render(&self) -> String {
        let mut s = String::new();
        self.write(&mut s, 0);
        s.push('\n');
        s
    }

    fn write(&self, s: &mut String, ind: usize) {
        match self {
            J::Null => s.push_str("null"),
            J::Bool(b) => {
                let _ = write!(s, "{}", b);
            }
            J::Int(i) => {
                let _ = write!(s, "{}", i);
            }
            J::Num(f) => {
                if f.is_finite() {
                    let _ = write!(s, "{:.3}", f);
                } else {
                    s.push('0');
                }
            }
            J::Str(t) => esc(s, t),
            J::Arr(a) => {
                if a.is_empty() {
                    s.push_str("[]");
                    return;
                }
                let simple = a.iter().all(|x| !matches!(x, J::Arr(_) | J::Obj(_)));
                s.push('[');
                for (i, x) in a.iter().enumerate() {
                    if i > 0 {
                        s.push(',');
                    }
                    if !simple {
                        nl(s, ind + 1);
                    } else if i > 0 {
                        s.push(' ');
                    }
                    x.write(s, ind + 1);
                }
                if !simple {
                    nl(s, ind);
                }
                s.push(']');
            }
            J::Obj(o) => {
                if o.is_empty() {
                    s.push_str("{}");
                    return;
                }
                s.push('{');
                for (i, (k, v)) in o.iter().enumerate() {
                    if i > 0 {
                        s.push(',');
                    }
                    nl(s, ind + 1);
                    esc(s, k);
                    s.push_str(": ");
                    v.write(s, ind + 1);
                }
                nl(s, ind);
                s.push('}');
            }
        }
    }

    pub fn parse(text: &str) -> Result<J, String> {
        let b = text.as_bytes();
        let mut p = 0usize;
        let v = parse_val(b, &mut p)?;
        ws(b, &mut p);
        if p != b.len() {
            return Err(format!("trailing data at byte {}", p));
        }
        Ok(v)
    }
}

fn nl(s: &mut String, ind: usize) {
    s.push('\n');
    for _ in 0..ind {
        s.push(' ');
    }
}

fn esc(s: &mut String, t: &str) {
    s.push('"');
    for c in t.chars() {
        match c {
            '"' => s.push_str("\\\""),
            '\\' => s.push_str("\\\\"),
            '\n' => s.push_str("\\n"),
            '\r' => s.push_str("\\r"),
            '\t' => s.push_str("\\t"),
            c if (c as u32) < 0x20 => {
                let _ = write!(s, "\\u{:04x}", c as u32);
            }
            c => s.push(c),
        }
    }
    s.push('"');
}

fn ws(b: &[u8], p: &mut usize) {
    while *p < b.len() && (b[*p] as char).is_ascii_whitespace() {
        *p += 1;
    }
}

fn parse_val(b: &[u8], p: &mut usize) -> Result<J, String> {
    ws(b, p);
    if *p >= b.len() {
        return Err("unexpected end".into());
    }
    match b[*p] {
        b'{' => {
            *p += 1;
            let mut o = Vec::new();
            ws(b, p);
            if *p < b.len() && b[*p] == b'}' {
                *p += 1;
                return Ok(J::Obj(o));
            }
            loop {
                ws(b, p);
                let k = match parse_val(b, p)? {
                    J::Str(s) => s,
                    _ => return Err("object key must be a string".into()),
                };
                ws(b, p);
                if *p >= b.len() || b[*p] != b':' {
                    return Err("expected ':'".into());
                }
                *p += 1;
                let v = parse_val(b, p)?;
                o.push((k, v));
                ws(b, p);
                match b.get(*p) {
                    Some(b',') => *p += 1,
                    Some(b'}') => {
                        *p += 1;
                        return Ok(J::Obj(o));
                    }
                    _ => return Err("expected ',' or '}'".into()),
                }
            }
        }
        b'[' => {
            *p += 1;
            let mut a = Vec::new();
            ws(b, p);
            if *p < b.len() && b[*p] == b']' {
                *p += 1;
                return Ok(J::Arr(a));
            }
            loop {
                a.push(parse_val(b, p)?);
                ws(b, p);
                match b.get(*p) {
                    Some(b',') => *p += 1,
                    Some(b']') => {
                        *p += 1;
                        return Ok(J::Arr(a));
                    }
                    _ => return Err("expected ',' or ']'".into()),
                }
            }
        }
        b'"' => {
            *p += 1;
            let mut out = Vec::new();
            while *p < b.len() {
                match b[*p] {
                    b'"' => {
                        *p += 1;
                        return String::from_utf8(out).map(J::Str).map_err(|e| e.to_string());
                    }
                    b'\\' => {
                        *p += 1;
                        match b.get(*p) {
                            Some(b'n') => out.push(b'\n'),
                            Some(b't') => out.push(b'\t'),
                            Some(b'r') => out.push(b'\r'),
                            Some(b'u') => {
                                let h = std::str::from_utf8(&b[*p + 1..(*p + 5).min(b.len())]).map_err(|e| e.to_string())?;
                                let c = u32::from_str_radix(h, 16).map_err(|e| e.to_string())?;
                                let mut buf = [0u8; 4];
                                out.extend_from_slice(char::from_u32(c).unwrap_or('?').encode_utf8(&mut buf).as_bytes());
                                *p += 4;
                            }
                            Some(c) => out.push(*c),
                            None => return Err("bad escape".into()),
                        }
                        *p += 1;
                    }
                    c => {
                        out.push(c);
                        *p += 1;
                    }
                }
            }
            Err("unterminated string".into())
        }
        b't' if b[*p..].starts_with(b"true") => {
            *p += 4;
            Ok(J::Bool(true))
        }
        b'f' if b[*p..].starts_with(b"false") => {
            *p += 5;
            Ok(J::Bool(false))
        }
        b'n' if b[*p..].starts_with(b"null") => {
            *p += 4;
            Ok(J::Null)
        }
        _ => {
            let st = *p;
            while *p < b.len() && matches!(b[*p], b'-' | b'+' | b'.' | b'e' | b'E' | b'0'..=b'9') {
                *p += 1;
            }
            let t = std::str::from_utf8(&b[st..*p]).map_err(|e| e.to_string())?;
            if let Ok(i) = t.parse::<i64>() {
                Ok(J::Int(i))
            } else {
                t.parse::<f64>().map(J::Num).map_err(|e| format!("bad number `{}`: {}", t, e))
            }
        }
    }
}
