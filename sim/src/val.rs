//! Bridges between abstract Items and real tls-parser values:
//!  * `msg_to_item` / `dtls_to_item`: every public field of a parsed value -> abstract Item
//!    (so that "exact field values" is decided by Item equality, not by the crate's Debug);
//!  * `build_message`: abstract Item -> real value borrowing from the Item (C08, C09).

use crate::item::{Item, Val};
use tls_parser::*;

fn be16s(v: impl Iterator<Item = u16>) -> Vec<u8> {
    let mut out = Vec::new();
    for x in v {
        out.extend_from_slice(&x.to_be_bytes());
    }
    out
}

pub fn hs_to_item(h: &TlsMessageHandshake) -> Item {
    match h {
        TlsMessageHandshake::HelloRequest => Item::new("hello_request"),
        TlsMessageHandshake::ClientHello(c) => Item::new("client_hello")
            .int("ver", c.version.0 as u64)
            .bytes("random", c.random)
            .opt_bytes("sid", c.session_id)
            .bytes("ciphers", &be16s(c.ciphers.iter().map(|x| x.0)))
            .bytes("comp", &c.comp.iter().map(|x| x.0).collect::<Vec<u8>>())
            .opt_bytes("ext", c.ext),
        TlsMessageHandshake::ServerHello(s) => sh_to_item(s),
        TlsMessageHandshake::ServerHelloV13Draft18(s) => Item::new("server_hello_d18")
            .int("ver", s.version.0 as u64)
            .bytes("random", s.random)
            .int("cipher", s.cipher.0 as u64)
            .opt_bytes("ext", s.ext),
        TlsMessageHandshake::NewSessionTicket(t) => Item::new("new_session_ticket")
            .int("hint", t.ticket_lifetime_hint as u64)
            .bytes("ticket", t.ticket),
        TlsMessageHandshake::EndOfEarlyData => Item::new("end_of_early_data"),
        TlsMessageHandshake::HelloRetryRequest(h) => Item::new("hello_retry_request")
            .int("ver", h.version.0 as u64)
            .int("cipher", h.cipher.0 as u64)
            .opt_bytes("ext", h.ext),
        TlsMessageHandshake::Certificate(c) => cert_to_item(c),
        TlsMessageHandshake::ServerKeyExchange(s) => Item::new("server_key_exchange").bytes("params", s.parameters),
        TlsMessageHandshake::CertificateRequest(c) => {
            let it = Item::new("certificate_request").bytes("types", &c.cert_types);
            let it = match &c.sig_hash_algs {
                Some(v) => it.bytes("sigalgs", &be16s(v.iter().copied())),
                None => it.none("sigalgs"),
            };
            it.list("cas", c.unparsed_ca.iter().map(|x| x.to_vec()).collect())
        }
        TlsMessageHandshake::ServerDone(b) => Item::new("server_done").bytes("body", b),
        TlsMessageHandshake::CertificateVerify(b) => Item::new("certificate_verify").bytes("body", b),
        TlsMessageHandshake::ClientKeyExchange(c) => cke_to_item(c),
        TlsMessageHandshake::Finished(b) => Item::new("finished").bytes("body", b),
        TlsMessageHandshake::CertificateStatus(s) => Item::new("certificate_status")
            .int("stype", s.status_type as u64)
            .bytes("blob", s.blob),
        TlsMessageHandshake::NextProtocol(n) => Item::new("next_protocol")
            .bytes("proto", n.selected_protocol)
            .bytes("padding", n.padding),
        TlsMessageHandshake::KeyUpdate(v) => Item::new("key_update").int("v", *v as u64),
    }
}

fn sh_to_item(s: &TlsServerHelloContents) -> Item {
    Item::new("server_hello")
        .int("ver", s.version.0 as u64)
        .bytes("random", s.random)
        .opt_bytes("sid", s.session_id)
        .int("cipher", s.cipher.0 as u64)
        .int("comp", s.compression.0 as u64)
        .opt_bytes("ext", s.ext)
}

fn cert_to_item(c: &TlsCertificateContents) -> Item {
    Item::new("certificate").list("certs", c.cert_chain.iter().map(|x| x.data.to_vec()).collect())
}

fn cke_to_item(c: &TlsClientKeyExchangeContents) -> Item {
    match c {
        TlsClientKeyExchangeContents::Unknown(b) => Item::new("client_key_exchange").bytes("body", b),
        TlsClientKeyExchangeContents::Dh(b) => Item::new("client_key_exchange_dh").bytes("body", b),
        TlsClientKeyExchangeContents::Ecdh(p) => Item::new("client_key_exchange_ecdh").bytes("body", p.point),
    }
}

pub fn msg_to_item(m: &TlsMessage) -> Item {
    match m {
        TlsMessage::Handshake(h) => hs_to_item(h),
        TlsMessage::ChangeCipherSpec => Item::new("ccs"),
        TlsMessage::Alert(a) => Item::new("alert").int("level", a.severity.0 as u64).int("desc", a.code.0 as u64),
        TlsMessage::ApplicationData(d) => Item::new("appdata").bytes("blob", d.blob),
        TlsMessage::Heartbeat(h) => Item::new("heartbeat")
            .int("hbtype", h.heartbeat_type.0 as u64)
            .int("plen", h.payload_len as u64)
            .bytes("payload", h.payload),
    }
}

pub fn dtls_body_to_item(b: &DTLSMessageHandshakeBody) -> Item {
    match b {
        DTLSMessageHandshakeBody::HelloRequest => Item::new("hello_request"),
        DTLSMessageHandshakeBody::ClientHello(c) => Item::new("d_client_hello")
            .int("ver", c.version.0 as u64)
            .bytes("random", c.random)
            .opt_bytes("sid", c.session_id)
            .bytes("cookie", c.cookie)
            .bytes("ciphers", &be16s(c.ciphers.iter().map(|x| x.0)))
            .bytes("comp", &c.comp.iter().map(|x| x.0).collect::<Vec<u8>>())
            .opt_bytes("ext", c.ext),
        DTLSMessageHandshakeBody::HelloVerifyRequest(h) => Item::new("d_hello_verify")
            .int("ver", h.server_version.0 as u64)
            .bytes("cookie", h.cookie),
        DTLSMessageHandshakeBody::ServerHello(s) => sh_to_item(s),
        DTLSMessageHandshakeBody::NewSessionTicket(t) => Item::new("new_session_ticket")
            .int("hint", t.ticket_lifetime_hint as u64)
            .bytes("ticket", t.ticket),
        DTLSMessageHandshakeBody::HelloRetryRequest(h) => Item::new("hello_retry_request")
            .int("ver", h.version.0 as u64)
            .int("cipher", h.cipher.0 as u64)
            .opt_bytes("ext", h.ext),
        DTLSMessageHandshakeBody::Certificate(c) => cert_to_item(c),
        DTLSMessageHandshakeBody::ServerKeyExchange(s) => Item::new("server_key_exchange").bytes("params", s.parameters),
        DTLSMessageHandshakeBody::CertificateRequest(_) => Item::new("certificate_request"),
        DTLSMessageHandshakeBody::ServerDone(b) => Item::new("server_done").bytes("body", b),
        DTLSMessageHandshakeBody::CertificateVerify(b) => Item::new("certificate_verify").bytes("body", b),
        DTLSMessageHandshakeBody::ClientKeyExchange(c) => cke_to_item(c),
        DTLSMessageHandshakeBody::Finished(b) => Item::new("finished").bytes("body", b),
        DTLSMessageHandshakeBody::CertificateStatus(s) => Item::new("certificate_status")
            .int("stype", s.status_type as u64)
            .bytes("blob", s.blob),
        DTLSMessageHandshakeBody::NextProtocol(n) => Item::new("next_protocol")
            .bytes("proto", n.selected_protocol)
            .bytes("padding", n.padding),
        DTLSMessageHandshakeBody::Fragment(f) => Item::new("fragment").bytes("body", f),
    }
}

/// canonical form for comparison: drop metadata (`_x`) and wire-only fields, sort fields
pub fn canon(it: &Item) -> Item {
    let mut f: Vec<(String, Val)> = it
        .f
        .iter()
        .filter(|(k, _)| !k.starts_with('_') && k != "pad" && k != "hstype" && k != "hslen")
        .cloned()
        .collect();
    f.sort_by(|a, b| a.0.cmp(&b.0));
    Item { kind: it.kind.clone(), f }
}

pub fn same(a: &Item, b: &Item) -> bool {
    canon(a) == canon(b)
}

pub fn diff(a: &Item, b: &Item) -> String {
    format!("expected `{}` got `{}`", clip(&canon(a).to_line()), clip(&canon(b).to_line()))
}

pub fn clip(s: &str) -> String {
    if s.len() > 300 {
        format!("{}...({} chars)", &s[..300], s.len())
    } else {
        s.to_string()
    }
}

fn ciphers_of(b: &[u8]) -> Vec<TlsCipherSuiteID> {
    b.chunks(2).filter(|c| c.len() == 2).map(|c| TlsCipherSuiteID(u16::from_be_bytes([c[0], c[1]]))).collect()
}

/// Build the real value an abstract message denotes; slices borrow from the Item.
/// Returns None for kinds with no value form (rawmsg).
pub fn build_message<'a>(m: &'a Item) -> Option<TlsMessage<'a>> {
    let hs = |h| Some(TlsMessage::Handshake(h));
    match m.kind.as_str() {
        "ccs" => Some(TlsMessage::ChangeCipherSpec),
        "alert" => Some(TlsMessage::Alert(TlsMessageAlert {
            severity: TlsAlertSeverity(m.u("level") as u8),
            code: TlsAlertDescription(m.u("desc") as u8),
        })),
        "appdata" => Some(TlsMessage::ApplicationData(TlsMessageApplicationData { blob: m.b("blob") })),
        "heartbeat" => Some(TlsMessage::Heartbeat(TlsMessageHeartbeat {
            heartbeat_type: TlsHeartbeatMessageType(m.u("hbtype") as u8),
            payload_len: m.u("plen") as u16,
            payload: m.b("payload"),
        })),
        "hello_request" => hs(TlsMessageHandshake::HelloRequest),
        "client_hello" => hs(TlsMessageHandshake::ClientHello(TlsClientHelloContents::new(
            m.u("ver") as u16,
            m.b("random"),
            m.ob("sid"),
            ciphers_of(m.b("ciphers")),
            m.b("comp").iter().map(|&c| TlsCompressionID(c)).collect(),
            m.ob("ext"),
        ))),
        "server_hello" => hs(TlsMessageHandshake::ServerHello(TlsServerHelloContents::new(
            m.u("ver") as u16,
            m.b("random"),
            m.ob("sid"),
            m.u("cipher") as u16,
            m.u("comp") as u8,
            m.ob("ext"),
        ))),
        "server_hello_d18" => hs(TlsMessageHandshake::ServerHelloV13Draft18(TlsServerHelloV13Draft18Contents {
            version: TlsVersion(m.u("ver") as u16),
            random: m.b("random"),
            cipher: TlsCipherSuiteID(m.u("cipher") as u16),
            ext: m.ob("ext"),
        })),
        "new_session_ticket" => hs(TlsMessageHandshake::NewSessionTicket(TlsNewSessionTicketContent {
            ticket_lifetime_hint: m.u("hint") as u32,
            ticket: m.b("ticket"),
        })),
        "end_of_early_data" => hs(TlsMessageHandshake::EndOfEarlyData),
        "hello_retry_request" => hs(TlsMessageHandshake::HelloRetryRequest(TlsHelloRetryRequestContents {
            version: TlsVersion(m.u("ver") as u16),
            cipher: TlsCipherSuiteID(m.u("cipher") as u16),
            ext: m.ob("ext"),
        })),
        "certificate" => hs(TlsMessageHandshake::Certificate(TlsCertificateContents {
            cert_chain: m.l("certs").iter().map(|c| RawCertificate { data: c }).collect(),
        })),
        "server_key_exchange" => {
            hs(TlsMessageHandshake::ServerKeyExchange(TlsServerKeyExchangeContents { parameters: m.b("params") }))
        }
        "certificate_request" => hs(TlsMessageHandshake::CertificateRequest(TlsCertificateRequestContents {
            cert_types: m.b("types").to_vec(),
            sig_hash_algs: m
                .ob("sigalgs")
                .map(|b| b.chunks(2).filter(|c| c.len() == 2).map(|c| u16::from_be_bytes([c[0], c[1]])).collect()),
            unparsed_ca: m.l("cas").iter().map(|c| &c[..]).collect(),
        })),
        "server_done" => hs(TlsMessageHandshake::ServerDone(m.b("body"))),
        "certificate_verify" => hs(TlsMessageHandshake::CertificateVerify(m.b("body"))),
        "client_key_exchange" => {
            hs(TlsMessageHandshake::ClientKeyExchange(TlsClientKeyExchangeContents::Unknown(m.b("body"))))
        }
        "client_key_exchange_dh" => hs(TlsMessageHandshake::ClientKeyExchange(TlsClientKeyExchangeContents::Dh(m.b("body")))),
        "client_key_exchange_ecdh" => {
            hs(TlsMessageHandshake::ClientKeyExchange(TlsClientKeyExchangeContents::Ecdh(ECPoint { point: m.b("body") })))
        }
        "finished" => hs(TlsMessageHandshake::Finished(m.b("body"))),
        "certificate_status" => hs(TlsMessageHandshake::CertificateStatus(TlsCertificateStatusContents {
            status_type: m.u("stype") as u8,
            blob: m.b("blob"),
        })),
        "next_protocol" => hs(TlsMessageHandshake::NextProtocol(TlsNextProtocolContent {
            selected_protocol: m.b("proto"),
            padding: m.b("padding"),
        })),
        "key_update" => hs(TlsMessageHandshake::KeyUpdate(m.u("v") as u8)),
        _ => None,
    }
}
