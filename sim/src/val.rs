//! Bridges between abstract Items and real tls-parser values:
//!  * `msg_to_item` / `dtls_to_item`: every public field of a parsed value -> abstract Item
//!    (so that "exact field values" is decided by Item equality, not by the crate's Debug);
//!  * `build_message`: abstract Item -> real value borrowing from the Item (C08, C09).

use crate::item::{Item, Val};
use tls_parser::*;

fn be16s(v: impl Iterator<Item = u16>) -> Vec<u8> {
    let mut out = Vec::new();
    for x in v {
        out.extend_from_slice(&x.to_be_bytes());
    }
    out
}

pub fn hs_to_item(h: &TlsMessageHandshake) -> Item {
    match h {
        TlsMessageHandshake::HelloRequest => Item::new("hello_request"),
        TlsMessageHandshake::ClientHello(c) => Item::new("client_hello")
            .int("ver", c.version.0 as u64)
            .bytes("random", c.random)
            .opt_bytes("sid", c.session_id)
            .bytes("ciphers", &be16s(c.ciphers.iter().map(|x| x.0)))
            .bytes("comp", &c.comp.iter().map(|x| x.0).collect::<Vec<u8>>())
            .opt_bytes("ext", c.ext),
        TlsMessageHandshake::ServerHello(s) => sh_to_item(s),
        TlsMessageHandshake::ServerHelloV13Draft18(s) => Item::new("server_hello_d18")
            .int("ver", s.version.0 as u64)
            .bytes("random", s.random)
            .int("cipher", s.cipher.0 as u64)
            .opt_bytes("ext", s.ext),
        TlsMessageHandshake::NewSessionTicket(t) => Item::new("new_session_ticket")
            .int("hint", t.ticket_lifetime_hint as u64)
            .bytes("ticket", t.ticket),
        TlsMessageHandshake::EndOfEarlyData => Item::new("end_of_early_data"),
        TlsMessageHandshake::HelloRetryRequest(h) => Item::new("hello_retry_request")
            .int("ver", h.version.0 as u64)
            .int("cipher", h.cipher.0 as u64)
            .opt_bytes("ext", h.ext),
        TlsMessageHandshake::Certificate(c) => cert_to_item(c),
        TlsMessageHandshake::ServerKeyExchange(s) => Item::new("server_key_exchange").bytes("params", s.parameters),
        TlsMessageHandshake::CertificateRequest(c) => {
            let it = Item::new("certificate_request").bytes("types", &c.cert_types);
            let it = match &c.sig_hash_algs {
                Some(v) => it.bytes("sigalgs", &be16s(v.iter().copied())),
                None => it.none("sigalgs"),
            };
            it.list("cas", c.unparsed_ca.iter().map(|x| x.to_vec()).collect())
        }
        TlsMessageHandshake::ServerDone(b) => Item::new("server_done").bytes("body", b),
        TlsMessageHandshake::CertificateVerify(b) => Item::new("certificate_verify").bytes("body", b),
        TlsMessageHandshake::ClientKeyExchange(c) => cke_to_item(c),
        TlsMessageHandshake::Finished(b) => Item::new("finished").bytes("body", b),
        TlsMessageHandshake::CertificateStatus(s) => Item::new("certificate_status")
            .int("stype", s.status_type as u64)
            .bytes("blob", s.blob),
        TlsMessageHandshake::NextProtocol(n) => Item::new("next_protocol")
            .bytes("proto", n.selected_protocol)
            .bytes("padding", n.padding),
        TlsMessageHandshake::KeyUpdate(v) => Item::new("key_update").int("v", *v as u64),
        // a variant added to the crate later must not break the build of the checks
        #[allow(unreachable_patterns)]
        _ => Item::new("unknown_handshake_variant"),
    }
}

fn sh_to_item(s: &TlsServerHelloContents) -> Item {
    Item::new("server_hello")
        .int("ver", s.version.0 as u64)
        .bytes("random", s.random)
        .opt_bytes("sid", s.session_id)
        .int("cipher", s.cipher.0 as u64)
        .int("comp", s.compression.0 as u64)
        .opt_bytes("ext", s.ext)
}

fn cert_to_item(c: &TlsCertificateContents) -> Item {
    Item::new("certificate").list("certs", c.cert_chain.iter().map(|x| x.data.to_vec()).collect())
}

fn cke_to_item(c: &TlsClientKeyExchangeContents) -> Item {
    match c {
        TlsClientKeyExchangeContents::Unknown(b) => Item::new("client_key_exchange").bytes("body", b),
        TlsClientKeyExchangeContents::Dh(b) => Item::new("client_key_exchange_dh").bytes("body", b),
        TlsClientKeyExchangeContents::Ecdh(p) => Item::new("client_key_exchange_ecdh").bytes("body", p.point),
        #[allow(unreachable_patterns)]
        _ => Item::new("unknown_cke_variant"),
    }
}

pub fn msg_to_item(m: &TlsMessage) -> Item {
    match m {
        TlsMessage::Handshake(h) => hs_to_item(h),
        TlsMessage::ChangeCipherSpec => Item::new("ccs"),
        TlsMessage::Alert(a) => Item::new("alert").int("level", a.severity.0 as u64).int("desc", a.code.0 as u64),
        TlsMessage::ApplicationData(d) => Item::new("appdata").bytes("blob", d.blob),
        TlsMessage::Heartbeat(h) => Item::new("heartbeat")
            .int("hbtype", h.heartbeat_type.0 as u64)
            .int("plen", h.payload_len as u64)
            .bytes("payload", h.payload),
        #[allow(unreachable_patterns)]
        _ => Item::new("unknown_message_variant"),
    }
}

pub fn dtls_body_to_item(b: &DTLSMessageHandshakeBody) -> Item {
    match b {
        DTLSMessageHandshakeBody::HelloRequest => Item::new("hello_request"),
        DTLSMessageHandshakeBody::ClientHello(c) => Item::new("d_client_hello")
            .int("ver", c.version.0 as u64)
            .bytes("random", c.random)
            .opt_bytes("sid", c.session_id)
            .bytes("cookie", c.cookie)
            .bytes("ciphers", &be16s(c.ciphers.iter().map(|x| x.0)))
            .bytes("comp", &c.comp.iter().map(|x| x.0).collect::<Vec<u8>>())
            .opt_bytes("ext", c.ext),
        DTLSMessageHandshakeBody::HelloVerifyRequest(h) => Item::new("d_hello_verify")
            .int("ver", h.server_version.0 as u64)
            .bytes("cookie", h.cookie),
        DTLSMessageHandshakeBody::ServerHello(s) => sh_to_item(s),
        DTLSMessageHandshakeBody::NewSessionTicket(t) => Item::new("new_session_ticket")
            .int("hint", t.ticket_lifetime_hint as u64)
            .bytes("ticket", t.ticket),
        DTLSMessageHandshakeBody::HelloRetryRequest(h) => Item::new("hello_retry_request")
            .int("ver", h.version.0 as u64)
            .int("cipher", h.cipher.0 as u64)
            .opt_bytes("ext", h.ext),
        DTLSMessageHandshakeBody::Certificate(c) => cert_to_item(c),
        DTLSMessageHandshakeBody::ServerKeyExchange(s) => Item::new("server_key_exchange").bytes("params", s.parameters),
        DTLSMessageHandshakeBody::CertificateRequest(_) => Item::new("certificate_request"),
        DTLSMessageHandshakeBody::ServerDone(b) => Item::new("server_done").bytes("body", b),
        DTLSMessageHandshakeBody::CertificateVerify(b) => Item::new("certificate_verify").bytes("body", b),
        DTLSMessageHandshakeBody::ClientKeyExchange(c) => cke_to_item(c),
        DTLSMessageHandshakeBody::Finished(b) => Item::new("finished").bytes("body", b),
        DTLSMessageHandshakeBody::CertificateStatus(s) => Item::new("certificate_status")
            .int("stype", s.status_type as u64)
            .bytes("blob", s.blob),
        DTLSMessageHandshakeBody::NextProtocol(n) => Item::new("next_protocol")
            .bytes("proto", n.selected_protocol)
            .bytes("padding", n.padding),
        DTLSMessageHandshakeBody::Fragment(f) => Item::new("fragment").bytes("body", f),
        #[allow(unreachable_patterns)]
        _ => Item::new("unknown_dtls_body_variant"),
    }
}

/// canonical form for comparison: drop metadata (`_x`) and wire-only fields, sort fields
pub fn canon(it: &Item) -> Item {
    let mut f: Vec<(String, Val)> = it
        .f
        .iter()
        .filter(|(k, _)| !k.starts_with('_') && k != "pad" && k != "hstype" && k != "hslen")
        .cloned()
        .collect();
    f.sort_by(|a, b| a.0.cmp(&b.0));
    Item { kind: it.kind.clone(), f }
}

pub fn same(a: &Item, b: &Item) -> bool {
    canon(a) == canon(b)
}

/// `same`, with the one tolerated representation difference: RFC 5077 defines
/// `NewSessionTicket = uint32 lifetime_hint; opaque ticket<0..2^16-1>`; the ticket value may be
/// reported with or without its own two-byte length prefix
pub fn equiv(expected: &Item, got: &Item) -> bool {
    if same(expected, got) {
        return true;
    }
    if expected.kind == "new_session_ticket" && got.kind == "new_session_ticket" && expected.u("hint") == got.u("hint") {
        let full = expected.b("ticket");
        return full.len() >= 2 && ((full[0] as usize) << 8 | full[1] as usize) == full.len() - 2 && got.b("ticket") == &full[2..];
    }
    false
}

pub fn diff(a: &Item, b: &Item) -> String {
    format!("expected `{}` got `{}`", clip(&canon(a).to_line()), clip(&canon(b).to_line()))
}

pub fn clip(s: &str) -> String {
    if s.len() > 300 {
        format!("{}...({} chars)", &s[..300], s.len())
    } else {
        s.to_string()
    }
}

fn ciphers_of(b: &[u8]) -> Vec<TlsCipherSuiteID> {
    b.chunks(2).filter(|c| c.len() == 2).map(|c| TlsCipherSuiteID(u16::from_be_bytes([c[0], c[1]]))).collect()
}

// The harness never writes struct literals of the crate's types (a field added to one of them is a
// benign change and must not break the build of the checks): values come from the crate's own
// constructors or from its own parsers applied to the reference encoding.

/// a record header value, obtained from the real header parser
pub fn mk_header(ctype: u8, ver: u16, len: u16) -> TlsRecordHeader {
    // (parsed with a zero length and an ordinary type/version, which no header parser can object to;
    // the requested field values are assigned afterwards)
    let b = [22u8, 3, 3, 0, 0];
    match parse_tls_record_header(&b) {
        Ok((_, mut h)) => {
            // (field assignment keeps working when fields are added)
            h.record_type = TlsRecordType(ctype);
            h.version = TlsVersion(ver);
            h.len = len;
            h
        }
        Err(_) => panic!("parse_tls_record_header refused 5 bytes"),
    }
}

/// a raw record value holding `data`, whatever its length
pub fn mk_raw_record<'a>(hdr: TlsRecordHeader, data: &'a [u8]) -> TlsRawRecord<'a> {
    static EMPTY: [u8; 5] = [22, 3, 3, 0, 0];
    match parse_tls_raw_record(&EMPTY) {
        Ok((_, r)) => {
            let mut r: TlsRawRecord<'a> = r;
            r.hdr = hdr;
            r.data = data;
            r
        }
        Err(_) => panic!("parse_tls_raw_record refused an empty record"),
    }
}

/// a plaintext record value holding `msgs`
pub fn mk_plaintext<'a>(hdr: TlsRecordHeader, msgs: Vec<TlsMessage<'a>>) -> TlsPlaintext<'a> {
    static ONE: [u8; 6] = [20, 3, 3, 0, 1, 1];
    match parse_tls_plaintext(&ONE) {
        Ok((_, p)) => {
            let mut p: TlsPlaintext<'a> = p;
            p.hdr = hdr;
            p.msg = msgs;
            p
        }
        Err(_) => panic!("parse_tls_plaintext refused a ChangeCipherSpec record"),
    }
}

/// a DTLS record header value
pub fn mk_dtls_header(ctype: u8, ver: u16, len: u16) -> DTLSRecordHeader {
    let b = [22u8, 0xfe, 0xfd, 0, 0, 0, 0, 0, 0, 0, 0, 0, 0];
    match parse_dtls_record_header(&b) {
        Ok((_, mut h)) => {
            h.content_type = TlsRecordType(ctype);
            h.version = TlsVersion(ver);
            h.length = len;
            h
        }
        Err(_) => panic!("parse_dtls_record_header refused 13 bytes"),
    }
}

/// bytes from which `build_message` derives the value of kinds that have no constructor
pub fn build_bytes(m: &Item) -> Vec<u8> {
    match m.kind.as_str() {
        "client_key_exchange_dh" | "client_key_exchange_ecdh" => {
            // ServerECDHParams (named curve + u8-length-prefixed point): parse_ecdh_params hands back an
            // ECPoint value; Dh borrows the Item directly
            let mut v = vec![3, 0, 23];
            crate::enc::vec8(&mut v, &m.b("body")[..m.b("body").len().min(255)]);
            v
        }
        "server_hello_d18" => {
            // always encoded with the draft-18 version (the only one the wire parser takes as this
            // variant); build_message puts the item's version into the parsed value afterwards
            let mut d = m.clone();
            d.set("ver", crate::item::Val::Int(0x7f12));
            crate::enc::tls_message(&d)
        }
        _ => crate::enc::tls_message(m),
    }
}

/// Build the real value an abstract message denotes. ClientHello / ServerHello go through the
/// crate's constructors (so that values no wire encoding can produce are possible: empty or
/// over-long session ids); every other kind is what the crate's own parser makes of the reference
/// encoding in `bytes` (= `build_bytes(m)`), which must outlive the value.
pub fn build_message<'a>(m: &'a Item, bytes: &'a [u8]) -> Option<TlsMessage<'a>> {
    let hs = |h| Some(TlsMessage::Handshake(h));
    match m.kind.as_str() {
        "client_hello" => hs(TlsMessageHandshake::ClientHello(TlsClientHelloContents::new(
            m.u("ver") as u16,
            m.b("random"),
            m.ob("sid"),
            ciphers_of(m.b("ciphers")),
            m.b("comp").iter().map(|&c| TlsCompressionID(c)).collect(),
            m.ob("ext"),
        ))),
        "server_hello" => hs(TlsMessageHandshake::ServerHello(TlsServerHelloContents::new(
            m.u("ver") as u16,
            m.b("random"),
            m.ob("sid"),
            m.u("cipher") as u16,
            m.u("comp") as u8,
            m.ob("ext"),
        ))),
        "client_key_exchange_dh" => hs(TlsMessageHandshake::ClientKeyExchange(TlsClientKeyExchangeContents::Dh(m.b("body")))),
        "client_key_exchange_ecdh" => {
            match parse_ecdh_params(bytes) {
                Ok((_, p)) => hs(TlsMessageHandshake::ClientKeyExchange(TlsClientKeyExchangeContents::Ecdh(p.public))),
                Err(_) => None,
            }
        }
        "ccs" => parse_tls_message_changecipherspec(bytes).ok().map(|x| x.1),
        "alert" => parse_tls_message_alert(bytes).ok().map(|x| x.1),
        "appdata" => parse_tls_message_applicationdata(bytes).ok().map(|x| x.1),
        "heartbeat" => parse_tls_message_heartbeat(bytes, bytes.len().min(65535) as u16).ok().and_then(|(_, mut v)| v.pop()),
        "rawmsg" => None,
        "server_hello_d18" => match parse_tls_message_handshake(bytes).ok().map(|x| x.1) {
            Some(TlsMessage::Handshake(TlsMessageHandshake::ServerHelloV13Draft18(mut c))) => {
                c.version = TlsVersion(m.u("ver") as u16);
                hs(TlsMessageHandshake::ServerHelloV13Draft18(c))
            }
            other => other,
        },
        _ => parse_tls_message_handshake(bytes).ok().map(|x| x.1),
    }
}
