//! Phase A: seeded wire encodings of the self-delimiting sub-structures (extensions, SCT,
//! DH/EC parameters, digitally-signed, records, handshake messages), written from the RFC layouts.

use crate::enc::{self, put_u16, put_u32, put_u64, vec16, vec8};
use crate::gen;
use crate::prng::Rng;

pub const KINDS: &[&str] = &[
    "tls_plaintext",
    "tls_raw",
    "tls_encrypted",
    "dtls_record",
    "hs",
    "dhs",
    "ext",
    "ext_client",
    "ext_server",
    "ext_tag",
    "sct",
    "sct_list",
    "dh",
    "ecdh",
    "ec",
    "dsig",
    "dsig_old",
];

fn blob(rng: &mut Rng, max: usize) -> Vec<u8> {
    let n = rng.small_len(max);
    match rng.below(8) {
        // host names / protocol names are text: printable ASCII, or UTF-8 with multi-byte
        // characters (possibly cut in the middle of a character by the length budget)
        0 | 1 => (0..n).map(|_| *rng.pick(b"abcdefghijklmnopqrstuvwxyz0123456789.-_/ ")).collect(),
        2 => {
            let mut v = Vec::new();
            while v.len() < n {
                let c = *rng.pick(&['a', 'é', 'ß', '中', '€', '😀', '\u{7f}', '\0', '\u{80}', '\u{7ff}', '\u{800}', '\u{ffff}', '\u{10000}']);
                let mut b = [0u8; 4];
                v.extend_from_slice(c.encode_utf8(&mut b).as_bytes());
            }
            // keep it valid UTF-8: cut at a character boundary
            while v.len() > n {
                let mut k = v.len() - 1;
                while k > 0 && (v[k] & 0xc0) == 0x80 {
                    k -= 1;
                }
                v.truncate(k);
            }
            v
        }
        _ => rng.bytes(n),
    }
}

const EXT_TYPES: &[u16] = &[0, 1, 5, 10, 11, 13, 15, 16, 18, 21, 22, 23, 28, 35, 40, 41, 42, 43, 44, 45, 48, 49, 51, 13172, 0xff01, 0xffce];

/// number of entries of an inner list: small most of the time, sometimes around and beyond the
/// small fixed bounds an implementation might be tempted to use (16, 32, 64, 255)
fn list_len(rng: &mut Rng, small: usize) -> usize {
    match rng.below(12) {
        0 => *rng.pick(&[15usize, 16, 17, 31, 32, 33, 63, 64, 65, 127, 128, 129, 255, 256, 300]),
        1 => rng.urange(17, 90),
        _ => rng.small_len(small),
    }
}

pub fn extension_content(rng: &mut Rng, t: u16) -> Vec<u8> {
    let mut v = Vec::new();
    match t {
        0 => {
            if rng.chance(1, 6) {
                return v;
            }
            let mut l = Vec::new();
            for _ in 0..list_len(rng, 4) {
                l.push(if rng.chance(3, 4) { 0 } else { rng.u8() });
                let max = if rng.chance(1, 6) { 900 } else { 40 };
                let mut name = blob(rng, max);
                if max == 900 && name.len() < 200 && rng.chance(1, 2) {
                    // long host names: beyond the 255-byte DNS limit
                    let unit = name.clone();
                    while name.len() < 300 && !unit.is_empty() {
                        name.extend_from_slice(&unit);
                    }
                }
                vec16(&mut l, &name);
            }
            vec16(&mut v, &l);
        }
        1 | 15 => v.push(rng.u8()),
        5 => {
            if rng.chance(1, 2) {
                v.push(rng.u8());
                v.extend(blob(rng, 30));
            }
        }
        10 | 13 => {
            let n = list_len(rng, 12);
            vec16(&mut v, &rng.bytes(n * 2));
        }
        11 | 45 | 0xff01 => vec8(&mut v, &blob(rng, 40)),
        16 => {
            let mut l = Vec::new();
            for _ in 0..list_len(rng, 4) {
                let max = if rng.chance(1, 6) { 255 } else { 20 };
                vec8(&mut l, &blob(rng, max));
            }
            vec16(&mut v, &l);
        }
        18 => {
            if rng.chance(1, 2) {
                vec16(&mut v, &blob(rng, 60));
            }
        }
        22 | 23 | 49 | 13172 => {}
        28 => put_u16(&mut v, rng.u16() as u64),
        42 => {
            if rng.chance(1, 2) {
                put_u32(&mut v, rng.u32() as u64);
            }
        }
        43 => {
            if rng.chance(1, 3) {
                put_u16(&mut v, rng.u16() as u64);
            } else {
                let n = list_len(rng, 6).min(127);
                vec8(&mut v, &rng.bytes(n * 2));
            }
        }
        48 => {
            let mut l = Vec::new();
            for _ in 0..list_len(rng, 3) {
                vec8(&mut l, &blob(rng, 12));
                vec16(&mut l, &blob(rng, 20));
            }
            vec16(&mut v, &l);
        }
        0xffce => {
            put_u16(&mut v, rng.u16() as u64);
            put_u16(&mut v, rng.u16() as u64);
            vec16(&mut v, &blob(rng, 40));
            vec16(&mut v, &blob(rng, 32));
            vec16(&mut v, &blob(rng, 60));
        }
        _ => v = blob(rng, 50),
    }
    v
}

pub fn extension(rng: &mut Rng) -> Vec<u8> {
    let t: u16 = match rng.below(8) {
        0 => rng.u16(),
        1 => {
            let x = rng.below(16) as u16;
            (x << 12) | 0x0a00 | (x << 4) | 0x0a // GREASE
        }
        _ => *rng.pick(EXT_TYPES),
    };
    // (some single-purpose parsers accept a neighbouring tag: give those tags the content they expect too)
    let ct = match t {
        10 if rng.chance(1, 4) => 11,
        13 if rng.chance(1, 4) => 15,
        40 if rng.chance(1, 2) => 41,
        _ => t,
    };
    let content = if rng.chance(1, 6) { blob(rng, 30) } else { extension_content(rng, ct) };
    let mut v = Vec::new();
    put_u16(&mut v, t as u64);
    vec16(&mut v, &content);
    v
}

/// a raw extension list (no outer length): what the *_extensions list parsers are given. Often more
/// extensions than any small fixed bound (a real ClientHello carries 10-20)
pub fn extension_list(rng: &mut Rng) -> Vec<u8> {
    let n = match rng.below(6) {
        0 => *rng.pick(&[15usize, 16, 17, 18, 31, 32, 33, 64, 65]),
        1 => rng.urange(17, 70),
        2 => 0,
        _ => rng.urange(1, 12),
    };
    let distinct = rng.chance(1, 2);
    let mut v = Vec::new();
    for i in 0..n {
        let mut e = extension(rng);
        if distinct && e.len() >= 2 && rng.chance(2, 3) {
            // distinct, mostly unknown types (duplicates are a case of their own)
            let t = 0x4000u16 + i as u16;
            e[0] = (t >> 8) as u8;
            e[1] = t as u8;
        }
        v.extend(e);
    }
    v
}

/// the content of one extension alone (what the *_content parsers are given)
pub fn extension_content_only(rng: &mut Rng) -> Vec<u8> {
    let t = *rng.pick(EXT_TYPES);
    extension_content(rng, t)
}

/// a hello whose extension block is a long list
pub fn hello_with_many_extensions(rng: &mut Rng) -> Vec<u8> {
    let kind = *rng.pick(&["client_hello", "server_hello", "server_hello_d18", "hello_retry_request"]);
    let mut m = gen::handshake(rng, kind, 100);
    m.set("ext", crate::item::Val::Bytes(extension_list(rng)));
    enc::tls_message(&m)
}

pub fn dsig(rng: &mut Rng) -> Vec<u8> {
    let mut v = vec![rng.u8(), rng.u8()];
    let max = if rng.chance(1, 8) { *rng.pick(&[255usize, 256, 512, 1024]) } else { 80 };
    vec16(&mut v, &blob(rng, max));
    v
}

pub fn dsig_old(rng: &mut Rng) -> Vec<u8> {
    let mut v = Vec::new();
    vec16(&mut v, &blob(rng, 80));
    v
}

pub fn sct_entry(rng: &mut Rng) -> Vec<u8> {
    let mut c = vec![if rng.chance(3, 4) { 0 } else { rng.u8() }];
    c.extend(rng.bytes(32));
    put_u64(&mut c, rng.next());
    vec16(&mut c, &blob(rng, 20));
    c.extend(dsig(rng));
    let mut v = Vec::new();
    vec16(&mut v, &c);
    v
}

pub fn sct_list(rng: &mut Rng) -> Vec<u8> {
    let mut l = Vec::new();
    for _ in 0..list_len(rng, 4).min(300) {
        l.extend(sct_entry(rng));
    }
    let mut v = Vec::new();
    vec16(&mut v, &l);
    v
}

pub fn dh_params(rng: &mut Rng) -> Vec<u8> {
    let mut v = Vec::new();
    let max = if rng.chance(1, 8) { *rng.pick(&[256usize, 257, 512, 1024, 2048]) } else { 130 };
    for _ in 0..3 {
        if max > 130 && rng.chance(1, 2) {
            vec16(&mut v, &rng.bytes(max));
        } else {
            vec16(&mut v, &blob(rng, max));
        }
    }
    v
}

pub fn ec_params(rng: &mut Rng) -> Vec<u8> {
    let mut v = Vec::new();
    match rng.below(6) {
        0 => {
            v.push(1); // explicit prime
            for _ in 0..6 {
                vec8(&mut v, &blob(rng, 40));
            }
        }
        1 => {
            v.push(*rng.pick(&[0u8, 2, 4, 255])); // rejected curve types
            v.extend(blob(rng, 10));
        }
        _ => {
            v.push(3);
            put_u16(&mut v, named_group(rng) as u64);
        }
    }
    v
}

/// registry-meaningful named groups (NIST, brainpool, x25519/x448, FFDHE, GREASE) or any value
pub fn named_group(rng: &mut Rng) -> u16 {
    if rng.chance(3, 4) {
        *rng.pick(&[1u16, 19, 21, 22, 23, 24, 25, 26, 27, 28, 29, 30, 31, 32, 33, 256, 257, 260, 0x0a0a, 0xff01, 0xff02])
    } else {
        rng.u16()
    }
}

pub fn ecdh_params(rng: &mut Rng) -> Vec<u8> {
    let mut v = ec_params(rng);
    // public points as real stacks send them: 0x04 || x || y (uncompressed), compressed, raw x25519,
    // with lengths at and around the field sizes
    let point = if rng.chance(2, 3) {
        let n = *rng.pick(&[20usize, 24, 28, 32, 48, 56, 64, 66]);
        let len = match rng.below(6) {
            0 => 2 * n + 1,
            1 => 2 * n,
            2 => 2 * n + 2,
            3 => n + 1,
            4 => n,
            _ => 1,
        };
        let mut p = rng.bytes(len.min(255));
        if !p.is_empty() && rng.chance(3, 4) {
            p[0] = *rng.pick(&[4u8, 4, 2, 3]);
        }
        p
    } else {
        blob(rng, 70)
    };
    vec8(&mut v, &point);
    v
}

pub fn dtls_handshake_msg(rng: &mut Rng) -> Vec<u8> {
    let m = match rng.below(6) {
        0 => gen::d_client_hello(rng, 150),
        1 => gen::d_hello_verify(rng),
        2 => {
            let mut m = gen::handshake(rng, "server_hello", 120);
            m.set("ver", crate::item::Val::Int(0xfefd));
            m
        }
        3 => gen::handshake(rng, "certificate", 150),
        4 => gen::handshake(rng, "server_done", 10),
        _ => gen::handshake(rng, "client_key_exchange", 80),
    };
    let body = enc::hs_body(&m);
    let t = enc::dtls_hs_type(&m.kind);
    if rng.chance(1, 3) && body.len() >= 2 {
        let off = rng.usize_below(body.len());
        let l = rng.urange(0, body.len() - off);
        enc::dtls_handshake(t, body.len() as u64, rng.u16(), off as u64, l as u64, &body[off..off + l])
    } else {
        enc::dtls_handshake(t, body.len() as u64, rng.u16(), 0, body.len() as u64, &body)
    }
}

pub fn tls_record(rng: &mut Rng) -> Vec<u8> {
    let (t, payload) = match rng.below(6) {
        0 => (20u8, vec![1u8; rng.urange(1, 3)]),
        1 => (21, enc::tls_message(&gen::alert(rng))),
        2 => (23, enc::tls_message(&gen::appdata(rng, 80))),
        3 => (24, enc::tls_message(&gen::heartbeat(rng, 60))),
        _ => {
            let mut p = Vec::new();
            for _ in 0..rng.urange(1, 3) {
                p.extend(enc::tls_message(&gen::any_handshake(rng, 100)));
            }
            (22, p)
        }
    };
    enc::tls_record(t, gen::version(rng), payload.len() as u64, &payload)
}

pub fn dtls_record(rng: &mut Rng) -> Vec<u8> {
    let (t, payload) = match rng.below(4) {
        0 => (20u8, vec![1u8]),
        1 => (21, enc::tls_message(&gen::alert(rng))),
        _ => {
            let mut p = Vec::new();
            for _ in 0..rng.urange(1, 2) {
                p.extend(dtls_handshake_msg(rng));
            }
            (22, p)
        }
    };
    enc::dtls_record(t, 0xfefd, rng.u16(), rng.next() & 0xffff_ffff_ffff, payload.len() as u64, &payload)
}

/// well-formed encoding of one structure of the given kind
pub fn structure(rng: &mut Rng, kind: &str) -> Vec<u8> {
    match kind {
        "tls_plaintext" | "tls_raw" | "tls_encrypted" => tls_record(rng),
        "dtls_record" => dtls_record(rng),
        "hs" => enc::tls_message(&gen::any_handshake(rng, 150)),
        "dhs" => dtls_handshake_msg(rng),
        "ext" | "ext_client" | "ext_server" | "ext_tag" => extension(rng),
        "sct" => sct_entry(rng),
        "sct_list" => sct_list(rng),
        "dh" => dh_params(rng),
        "ecdh" => ecdh_params(rng),
        "ec" => ec_params(rng),
        "dsig" => dsig(rng),
        "ext_list" => extension_list(rng),
        "ext_content" => extension_content_only(rng),
        "hello_many_ext" => hello_with_many_extensions(rng),
        _ => dsig_old(rng),
    }
}

/// structure kinds only the confused monitor (C01) is given: inputs of the list / content parsers
pub const CONFUSED_ONLY: &[&str] = &["ext_list", "ext_content", "hello_many_ext"];

/// declared extent of a structure as a reference framer reads it from the first bytes
/// (None when it cannot be determined from a fixed-position length field)
pub fn declared_extent(kind: &str, b: &[u8]) -> Option<usize> {
    let be16 = |o: usize| -> Option<usize> { b.get(o + 1).map(|_| (b[o] as usize) << 8 | b[o + 1] as usize) };
    let be24 = |o: usize| -> Option<usize> { b.get(o + 2).map(|_| (b[o] as usize) << 16 | (b[o + 1] as usize) << 8 | b[o + 2] as usize) };
    match kind {
        "tls_plaintext" | "tls_raw" | "tls_encrypted" => be16(3).map(|l| if l > 16640 { 5 } else { 5 + l }),
        "dtls_record" => be16(11).map(|l| if l > 16640 { 13 } else { 13 + l }),
        "hs" => be24(1).map(|l| 4 + l),
        "dhs" => be24(9).map(|l| 12 + l),
        "ext" | "ext_client" | "ext_server" | "ext_tag" => be16(2).map(|l| 4 + l),
        "sct" | "sct_list" | "dsig_old" => be16(0).map(|l| 2 + l),
        "dsig" => be16(2).map(|l| 4 + l),
        "dh" => {
            let mut o = 0;
            for _ in 0..3 {
                o += 2 + be16(o)?;
            }
            Some(o)
        }
        "ec" => ec_extent(b),
        "ecdh" => {
            let e = ec_extent(b)?;
            b.get(e).map(|l| e + 1 + *l as usize)
        }
        _ => None,
    }
}

/// extent of ECParameters: curve type 3 = named group (3 bytes), type 1 = explicit prime (six
/// u8-length-prefixed fields); unknown for any other curve type
fn ec_extent(b: &[u8]) -> Option<usize> {
    match *b.first()? {
        3 => Some(3),
        1 => {
            let mut o = 1;
            for _ in 0..6 {
                o += 1 + *b.get(o)? as usize;
            }
            Some(o)
        }
        // other curve types (e.g. explicit_char2) are rejected today; should one become supported its
        // extent is not ours to define
        _ => None,
    }
}
