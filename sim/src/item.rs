//! Scenario = explicit list of items (abstract messages, packing, deliveries, faults, monitor ops).
//! The text form of a Scenario is the replay file: it is the *whole* input of Phase B.

use std::fmt::Write as _;

#[derive(Clone, Debug, PartialEq, Eq)]
pub enum Val {
    Int(u64),
    Bytes(Vec<u8>),
    None,
    Str(String),
    List(Vec<Vec<u8>>),
}

#[derive(Clone, Debug, PartialEq, Eq)]
pub struct Item {
    pub kind: String,
    pub f: Vec<(String, Val)>,
}

static EMPTY: [u8; 0] = [];

impl Item {
    pub fn new(kind: &str) -> Item {
        Item { kind: kind.to_string(), f: Vec::new() }
    }
    pub fn int(mut self, k: &str, v: u64) -> Item {
        self.f.push((k.to_string(), Val::Int(v)));
        self
    }
    pub fn bytes(mut self, k: &str, v: &[u8]) -> Item {
        self.f.push((k.to_string(), Val::Bytes(v.to_vec())));
        self
    }
    pub fn opt_bytes(mut self, k: &str, v: Option<&[u8]>) -> Item {
        match v {
            Some(b) => self.f.push((k.to_string(), Val::Bytes(b.to_vec()))),
            None => self.f.push((k.to_string(), Val::None)),
        }
        self
    }
    pub fn none(mut self, k: &str) -> Item {
        self.f.push((k.to_string(), Val::None));
        self
    }
    pub fn str(mut self, k: &str, v: &str) -> Item {
        self.f.push((k.to_string(), Val::Str(v.to_string())));
        self
    }
    pub fn list(mut self, k: &str, v: Vec<Vec<u8>>) -> Item {
        self.f.push((k.to_string(), Val::List(v)));
        self
    }
    pub fn get(&self, k: &str) -> Option<&Val> {
        self.f.iter().find(|(n, _)| n == k).map(|(_, v)| v)
    }
    pub fn set(&mut self, k: &str, v: Val) {
        if let Some(e) = self.f.iter_mut().find(|(n, _)| n == k) {
            e.1 = v;
        } else {
            self.f.push((k.to_string(), v));
        }
    }
    pub fn remove(&mut self, k: &str) {
        self.f.retain(|(n, _)| n != k);
    }
    /// integer field (0 when absent: execution must be robust against minimised scenarios)
    pub fn u(&self, k: &str) -> u64 {
        match self.get(k) {
            Some(Val::Int(v)) => *v,
            _ => 0,
        }
    }
    pub fn u_opt(&self, k: &str) -> Option<u64> {
        match self.get(k) {
            Some(Val::Int(v)) => Some(*v),
            _ => None,
        }
    }
    pub fn b(&self, k: &str) -> &[u8] {
        match self.get(k) {
            Some(Val::Bytes(v)) => v,
            _ => &EMPTY,
        }
    }
    pub fn ob(&self, k: &str) -> Option<&[u8]> {
        match self.get(k) {
            Some(Val::Bytes(v)) => Some(v),
            _ => None,
        }
    }
    pub fn s(&self, k: &str) -> &str {
        match self.get(k) {
            Some(Val::Str(v)) => v,
            _ => "",
        }
    }
    pub fn l(&self, k: &str) -> &[Vec<u8>] {
        match self.get(k) {
            Some(Val::List(v)) => v,
            _ => &[],
        }
    }
    pub fn has(&self, k: &str) -> bool {
        self.get(k).is_some()
    }

    pub fn to_line(&self) -> String {
        let mut s = String::new();
        s.push_str(&self.kind);
        for (k, v) in &self.f {
            s.push(' ');
            s.push_str(k);
            s.push('=');
            match v {
                Val::Int(i) => {
                    let _ = write!(s, "{}", i);
                }
                Val::Bytes(b) => {
                    s.push('x');
                    hex_into(&mut s, b);
                }
                Val::None => s.push('-'),
                Val::Str(t) => {
                    s.push(':');
                    s.push_str(t);
                }
                Val::List(l) => {
                    s.push('[');
                    for (i, e) in l.iter().enumerate() {
                        if i > 0 {
                            s.push(',');
                        }
                        if e.is_empty() {
                            s.push('.');
                        } else {
                            hex_into(&mut s, e);
                        }
                    }
                    s.push(']');
                }
            }
        }
        s
    }

    pub fn parse_line(line: &str) -> Result<Item, String> {
        let mut it = line.split_whitespace();
        let kind = it.next().ok_or("empty line")?;
        let mut item = Item::new(kind);
        for tok in it {
            let (k, v) = tok.split_once('=').ok_or_else(|| format!("bad token {tok}"))?;
            let val = if v == "-" {
                Val::None
            } else if let Some(h) = v.strip_prefix('x') {
                Val::Bytes(unhex(h)?)
            } else if let Some(t) = v.strip_prefix(':') {
                Val::Str(t.to_string())
            } else if let Some(l) = v.strip_prefix('[') {
                let l = l.strip_suffix(']').ok_or("unterminated list")?;
                let mut out = Vec::new();
                if !l.is_empty() {
                    for e in l.split(',') {
                        if e == "." {
                            out.push(Vec::new());
                        } else {
                            out.push(unhex(e)?);
                        }
                    }
                }
                Val::List(out)
            } else {
                Val::Int(v.parse::<u64>().map_err(|e| format!("bad int {v}: {e}"))?)
            };
            item.f.push((k.to_string(), val));
        }
        Ok(item)
    }
}

pub fn hex_into(s: &mut String, b: &[u8]) {
    const H: &[u8; 16] = b"0123456789abcdef";
    for &c in b {
        s.push(H[(c >> 4) as usize] as char);
        s.push(H[(c & 15) as usize] as char);
    }
}

pub fn hex(b: &[u8]) -> String {
    let mut s = String::with_capacity(b.len() * 2);
    hex_into(&mut s, b);
    s
}

pub fn unhex(h: &str) -> Result<Vec<u8>, String> {
    let h = h.as_bytes();
    if h.len() % 2 != 0 {
        return Err("odd hex length".into());
    }
    let d = |c: u8| -> Result<u8, String> {
        match c {
            b'0'..=b'9' => Ok(c - b'0'),
            b'a'..=b'f' => Ok(c - b'a' + 10),
            b'A'..=b'F' => Ok(c - b'A' + 10),
            _ => Err(format!("bad hex digit {}", c as char)),
        }
    };
    let mut out = Vec::with_capacity(h.len() / 2);
    for p in h.chunks(2) {
        out.push(d(p[0])? << 4 | d(p[1])?);
    }
    Ok(out)
}

/// One simulated execution, fully explicit.
#[derive(Clone, Debug, PartialEq, Eq)]
pub struct Scenario {
    pub world: String,
    pub items: Vec<Item>,
}

impl Scenario {
    pub fn new(world: &str) -> Scenario {
        Scenario { world: world.to_string(), items: Vec::new() }
    }
    pub fn push(&mut self, it: Item) {
        self.items.push(it);
    }
    pub fn knob(&self) -> Option<&Item> {
        self.items.iter().find(|i| i.kind == "knob")
    }
    pub fn to_text(&self) -> String {
        let mut s = String::new();
        let _ = writeln!(s, "world {}", self.world);
        for it in &self.items {
            s.push_str(&it.to_line());
            s.push('\n');
        }
        s
    }
    pub fn short(&self, max_items: usize, max_line: usize) -> Vec<String> {
        let mut v = Vec::new();
        for it in self.items.iter().take(max_items) {
            let mut l = it.to_line();
            if l.len() > max_line {
                l.truncate(max_line);
                l.push_str("...");
            }
            v.push(l);
        }
        if self.items.len() > max_items {
            v.push(format!("... ({} more items)", self.items.len() - max_items));
        }
        v
    }
}

/// Replay file = header + scenario.
#[derive(Clone, Debug)]
pub struct Replay {
    pub property: String,
    pub signature: String,
    pub detail: String,
    pub origin: String,
    /// event-log digest of the execution that produced the file (replay must reproduce it exactly)
    pub digest: Option<u64>,
    /// runs executed before the final scenario in the same thread of the same process (only for
    /// violations that depend on state the code under test keeps across calls)
    pub prelude: Vec<Scenario>,
    pub scenario: Scenario,
}

impl Replay {
    pub fn to_text(&self) -> String {
        let mut s = String::new();
        s.push_str("wiresim-replay 1\n");
        let _ = writeln!(s, "property {}", self.property);
        let _ = writeln!(s, "signature {}", self.signature);
        for l in self.detail.lines() {
            let _ = writeln!(s, "# detail: {}", l);
        }
        let _ = writeln!(s, "# origin: {}", self.origin);
        if let Some(d) = self.digest {
            let _ = writeln!(s, "digest {:016x}", d);
        }
        for p in &self.prelude {
            s.push_str(&p.to_text());
            s.push_str("next-run\n");
        }
        s.push_str(&self.scenario.to_text());
        s.push_str("expect violation\n");
        s
    }

    pub fn parse(text: &str) -> Result<Replay, String> {
        let mut property = String::new();
        let mut signature = String::new();
        let mut detail = String::new();
        let mut origin = String::new();
        let mut digest = None;
        let mut world = String::new();
        let mut items = Vec::new();
        let mut prelude: Vec<Scenario> = Vec::new();
        let mut seen_magic = false;
        for line in text.lines() {
            let line = line.trim();
            if line.is_empty() {
                continue;
            }
            if let Some(c) = line.strip_prefix('#') {
                let c = c.trim();
                if let Some(d) = c.strip_prefix("detail:") {
                    detail.push_str(d.trim());
                    detail.push('\n');
                } else if let Some(o) = c.strip_prefix("origin:") {
                    origin = o.trim().to_string();
                }
                continue;
            }
            if !seen_magic {
                if line != "wiresim-replay 1" {
                    return Err("not a wiresim replay file".into());
                }
                seen_magic = true;
                continue;
            }
            if let Some(p) = line.strip_prefix("property ") {
                property = p.trim().to_string();
            } else if let Some(p) = line.strip_prefix("signature ") {
                signature = p.trim().to_string();
            } else if let Some(p) = line.strip_prefix("digest ") {
                digest = u64::from_str_radix(p.trim(), 16).ok();
            } else if let Some(p) = line.strip_prefix("world ") {
                world = p.trim().to_string();
            } else if line == "next-run" {
                prelude.push(Scenario { world: std::mem::take(&mut world), items: std::mem::take(&mut items) });
            } else if line.starts_with("expect ") {
                continue;
            } else {
                items.push(Item::parse_line(line)?);
            }
        }
        if property.is_empty() || world.is_empty() {
            return Err("replay file lacks property or world".into());
        }
        Ok(Replay { property, signature, detail, origin, digest, prelude, scenario: Scenario { world, items } })
    }
}
