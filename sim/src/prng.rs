//! One integer decides everything: SplitMix64 seeding of xoshiro256**.
//! Only Phase A (scenario generation) ever draws from this.

#[derive(Clone)]
pub struct Rng {
    s: [u64; 4],
}

pub fn splitmix(x: &mut u64) -> u64 {
    *x = x.wrapping_add(0x9E37_79B9_7F4A_7C15);
    let mut z = *x;
    z = (z ^ (z >> 30)).wrapping_mul(0xBF58_476D_1CE4_E5B9);
    z = (z ^ (z >> 27)).wrapping_mul(0x94D0_49BB_1331_11EB);
    z ^ (z >> 31)
}

/// 64-bit FNV-1a style mixing used for digests / fingerprints (not for PRNG).
pub fn mix(h: u64, v: u64) -> u64 {
    let mut x = h ^ v.wrapping_mul(0x9E37_79B9_7F4A_7C15);
    x = (x ^ (x >> 32)).wrapping_mul(0xD6E8_FEB8_6659_FD93);
    x = (x ^ (x >> 32)).wrapping_mul(0xD6E8_FEB8_6659_FD93);
    x ^ (x >> 32)
}

pub fn mix_bytes(mut h: u64, b: &[u8]) -> u64 {
    h = mix(h, b.len() as u64);
    for c in b.chunks(8) {
        let mut w = [0u8; 8];
        w[..c.len()].copy_from_slice(c);
        h = mix(h, u64::from_le_bytes(w));
    }
    h
}

pub fn mix_str(h: u64, s: &str) -> u64 {
    mix_bytes(h, s.as_bytes())
}

impl Rng {
    /// per-run generator: mixes the batch seed, a stream tag (property/world) and the run index
    pub fn for_run(seed: u64, tag: u64, idx: u64) -> Rng {
        let mut x = seed ^ tag.rotate_left(17) ^ idx.wrapping_mul(0xA24B_AED4_963E_E407);
        let mut s = [0u64; 4];
        for v in s.iter_mut() {
            *v = splitmix(&mut x);
        }
        if s == [0; 4] {
            s[0] = 1;
        }
        Rng { s }
    }

    pub fn next(&mut self) -> u64 {
        let r = self.s[1].wrapping_mul(5).rotate_left(7).wrapping_mul(9);
        let t = self.s[1] << 17;
        self.s[2] ^= self.s[0];
        self.s[3] ^= self.s[1];
        self.s[1] ^= self.s[2];
        self.s[0] ^= self.s[3];
        self.s[2] ^= t;
        self.s[3] = self.s[3].rotate_left(45);
        r
    }

    /// uniform in 0..n (n > 0)
    pub fn below(&mut self, n: u64) -> u64 {
        debug_assert!(n > 0);
        // multiply-shift; bias negligible for our n
        (((self.next() >> 11) as u128 * n as u128) >> 53) as u64
    }

    pub fn usize_below(&mut self, n: usize) -> usize {
        self.below(n as u64) as usize
    }

    /// uniform in lo..=hi
    pub fn range(&mut self, lo: u64, hi: u64) -> u64 {
        lo + self.below(hi - lo + 1)
    }

    pub fn urange(&mut self, lo: usize, hi: usize) -> usize {
        self.range(lo as u64, hi as u64) as usize
    }

    /// true with probability num/den
    pub fn chance(&mut self, num: u64, den: u64) -> bool {
        self.below(den) < num
    }

    pub fn u8(&mut self) -> u8 {
        self.next() as u8
    }
    pub fn u16(&mut self) -> u16 {
        self.next() as u16
    }
    pub fn u32(&mut self) -> u32 {
        self.next() as u32
    }

    pub fn bytes(&mut self, n: usize) -> Vec<u8> {
        let mut v = Vec::with_capacity(n);
        while v.len() < n {
            let w = self.next().to_le_bytes();
            let k = (n - v.len()).min(8);
            v.extend_from_slice(&w[..k]);
        }
        v
    }

    pub fn pick<'a, T>(&mut self, xs: &'a [T]) -> &'a T {
        &xs[self.usize_below(xs.len())]
    }

    /// a length biased to small values and boundaries, never above `max`
    pub fn small_len(&mut self, max: usize) -> usize {
        let r = match self.below(10) {
            0 => 0,
            1 => 1,
            2..=5 => self.urange(0, 16),
            6..=7 => self.urange(0, 64),
            8 => self.urange(0, 300),
            _ => self.urange(0, max),
        };
        r.min(max)
    }
}

/// Generation depth: 1 = quick tier, 2 = thorough tier (longer histories, more records and
/// messages per run). Read by Phase A only; Phase B sees explicit scenarios and never looks at it.
static DEPTH: std::sync::atomic::AtomicU32 = std::sync::atomic::AtomicU32::new(1);
pub fn set_depth(d: u32) {
    DEPTH.store(d.max(1), std::sync::atomic::Ordering::Relaxed);
}
pub fn depth() -> usize {
    DEPTH.load(std::sync::atomic::Ordering::Relaxed) as usize
}
