//! wiresim — deterministic simulation with fault injection around rusticata/tls-parser.
//! See /verif/DESIGN.md.

#![allow(dead_code)]
mod core;
mod driver;
mod enc;
mod gen;
mod guard;
mod item;
mod json;
mod prng;
mod res;
mod val;
mod visit;
mod w_defrag;
mod w_dgram;
mod w_flow;
mod w_ser;
mod w_stream;
mod w_taps;
mod structs;
mod allparsers;
mod worlds;

use crate::core::Prop;
use driver::{CheckOpts, Tier};

#[global_allocator]
static GLOBAL: guard::Meter = guard::Meter;

/// A of the linear heap bound `A*len + B`, from the real element types (DESIGN §3.C01)
pub fn heap_bound_a() -> usize {
    use std::mem::size_of;
    let m = size_of::<tls_parser::TlsMessage>()
        .max(size_of::<tls_parser::DTLSMessage>())
        .max(size_of::<tls_parser::TlsExtension>())
        .max(size_of::<tls_parser::TlsPlaintext>())
        .max(size_of::<tls_parser::DTLSPlaintext>())
        .max(size_of::<tls_parser::SignedCertificateTimestamp>());
    // slope: 16 x the largest returned element type per input byte (today's worst case, a record of
    // one-byte ChangeCipherSpec messages during Vec doubling, needs about 3 x)
    16 * m
}

fn usage() -> ! {
    eprintln!("usage: wiresim run <ID> [--tier quick|thorough] [--seed N] [--runs N] [--threads N] [--det N]\n       wiresim replay <file>\n       wiresim gen <ID> <seed> <idx>   (print the scenario of one run)");
    std::process::exit(2)
}

fn default_runs(prop: Prop, tier: Tier) -> u64 {
    // quick: ~10-40 s on 16 threads; thorough: as deep as is useful (minutes per property)
    let (q, t) = match prop {
        Prop::C01 => (100_000, 4_000_000),
        Prop::C02 => (700_000, 30_000_000),
        Prop::C03 => (700_000, 30_000_000),
        Prop::C06 => (1_000_000, 40_000_000),
        Prop::C07 => (1_500_000, 50_000_000),
        Prop::C08 => (3_000_000, 50_000_000),
        Prop::C09 => (3_000_000, 50_000_000),
        Prop::C10 => (300_000, 12_000_000),
        Prop::C16 => (250_000, 10_000_000),
    };
    match tier {
        Tier::Quick => q,
        Tier::Thorough => t,
    }
}

fn main() {
    guard::install_panic_hook();
    let args: Vec<String> = std::env::args().collect();
    if args.len() < 2 {
        usage();
    }
    match args[1].as_str() {
        "run" => {
            if args.len() < 3 {
                usage();
            }
            let prop = Prop::parse(&args[2]).unwrap_or_else(|| {
                eprintln!("unknown or unclaimed property {}", args[2]);
                std::process::exit(2)
            });
            let mut tier = match std::env::var("VERIF_TIER").as_deref() {
                Ok("thorough") => Tier::Thorough,
                _ => Tier::Quick,
            };
            let mut seed: u64 = std::env::var("VERIF_SEED").ok().and_then(|s| s.parse().ok()).unwrap_or(1);
            let mut runs: Option<u64> = None;
            let mut threads = std::thread::available_parallelism().map(|n| n.get()).unwrap_or(16).min(16);
            let mut det: Option<u64> = None;
            let mut i = 3;
            while i < args.len() {
                let v = args.get(i + 1).cloned().unwrap_or_default();
                match args[i].as_str() {
                    "--tier" => tier = if v == "thorough" { Tier::Thorough } else { Tier::Quick },
                    "--seed" => seed = v.parse().unwrap_or(1),
                    "--runs" => runs = v.parse().ok(),
                    "--threads" => threads = v.parse().unwrap_or(16),
                    "--det" => det = v.parse().ok(),
                    _ => usage(),
                }
                i += 2;
            }
            prng::set_depth(if tier == Tier::Thorough { 2 } else { 1 });
            let runs = runs.unwrap_or_else(|| default_runs(prop, tier));
            let det = det.unwrap_or(match tier {
                Tier::Quick => (runs / 100).clamp(200, 2000),
                Tier::Thorough => (runs / 100).clamp(2000, 50_000),
            });
            let o = CheckOpts { prop, tier, seed, runs, threads, determinism_runs: det };
            std::process::exit(driver::check(&o));
        }
        "replay" => {
            if args.len() < 3 {
                usage();
            }
            std::process::exit(driver::replay(&args[2]));
        }
        "gen" => {
            if args.len() < 5 {
                usage();
            }
            let prop = Prop::parse(&args[2]).unwrap_or_else(|| usage());
            if args.get(5).map(|s| s == "thorough").unwrap_or(false) {
                prng::set_depth(2);
            }
            let scn = driver::generate(prop, args[3].parse().unwrap_or(1), args[4].parse().unwrap_or(0));
            print!("{}", scn.to_text());
        }
        _ => usage(),
    }
}
