//! World dispatch and per-property metadata.

use crate::core::{Ctx, Prop};
use crate::item::Scenario;
use crate::prng::Rng;
use crate::w_defrag;

pub fn generate(prop: Prop, rng: &mut Rng) -> Scenario {
    match prop {
        Prop::C07 => w_defrag::generate(rng, prop),
        _ => w_defrag::generate(rng, prop),
    }
}

pub fn execute(scn: &Scenario, ctx: &mut Ctx) {
    match scn.world.as_str() {
        "defrag" => w_defrag::execute(scn, ctx),
        _ => {}
    }
}

pub struct Meta {
    pub level: &'static str,
    pub rule: &'static str,
    pub fault_kinds: &'static [&'static str],
    pub cell_spaces: Vec<(&'static str, Option<Vec<u32>>)>,
    pub real: &'static [&'static str],
    pub stub: &'static [&'static str],
    pub assumptions: &'static [&'static str],
}

pub fn cell_name(space: &str, id: u32) -> String {
    match space {
        "defrag" => w_defrag::cell_name(id),
        _ => format!("{}#{}", space, id),
    }
}

pub fn meta(prop: Prop) -> Meta {
    match prop {
        Prop::C07 => Meta {
            level: "exploration",
            rule: "one evaluation = one seeded operation history {parse_record, parse_record_nocopy, reset} executed against one real TlsRecordsParser and, call by call, against the executable accumulate-then-parse reference model; distinct = distinct 64-bit fingerprints of the abstract trace (operation kind x content type x outcome class x size class per call); non-trivial = at least 2 records fed or at least one fault kind fired",
            fault_kinds: &["fragment", "empty-fragment", "foreign-type-interleave", "nocopy-call", "reset", "oversize-stream"],
            cell_spaces: vec![("defrag", None)],
            real: &["TlsRecordsParser::{parse_record, parse_record_nocopy, reset, defrag_in_progress}", "parse_tls_record_with_header", "parse_tls_raw_record", "Debug of returned messages"],
            stub: &["record layer (seeded packing / split plan)", "peer message generator", "reference RFC encoder", "reference defragmentation model", "history-level split-group oracle"],
            assumptions: &[
                "the reference model delegates single-payload parsing to the real parse_tls_record_with_header (refinement of accumulation, not of payload decoding)",
                "heartbeat accumulations longer than 65535 bytes are unconstrained (no single-record counterpart): model comparison is suspended until the next reset()",
                "sampled histories: a clean batch is evidence, not proof",
            ],
        },
        _ => Meta {
            level: "exploration",
            rule: "",
            fault_kinds: &[],
            cell_spaces: vec![],
            real: &[],
            stub: &[],
            assumptions: &[],
        },
    }
}
