//! World dispatch and per-property metadata.

use crate::core::{Ctx, Prop};
use crate::item::Scenario;
use crate::prng::Rng;
use crate::w_defrag;
use crate::w_dgram;
use crate::w_flow;
use crate::w_ser;
use crate::w_stream;
use crate::w_taps;

pub fn generate(prop: Prop, rng: &mut Rng) -> Scenario {
    match prop {
        Prop::C07 => w_defrag::generate(rng, prop),
        Prop::C06 => match rng.below(10) {
            0..=6 => w_taps::generate(rng, prop),
            7..=8 => w_stream::generate(rng, prop),
            _ => w_dgram::generate(rng, prop),
        },
        Prop::C01 => match rng.below(20) {
            0..=7 => w_taps::generate(rng, prop),
            8..=12 => w_stream::generate(rng, prop),
            13..=15 => w_defrag::generate(rng, prop),
            16..=17 => w_dgram::generate(rng, prop),
            18 => w_ser::generate(rng, prop),
            _ => w_flow::generate(rng, prop),
        },
        Prop::C02 | Prop::C03 => w_stream::generate(rng, prop),
        Prop::C16 => {
            if rng.chance(1, 3) {
                w_dgram::generate(rng, prop)
            } else {
                w_stream::generate(rng, prop)
            }
        }
        Prop::C08 => w_flow::generate(rng, prop),
        Prop::C09 => w_ser::generate(rng, prop),
        Prop::C10 => w_dgram::generate(rng, prop),
    }
}

pub fn execute(scn: &Scenario, ctx: &mut Ctx) {
    match scn.world.as_str() {
        "defrag" => w_defrag::execute(scn, ctx),
        "stream" => w_stream::execute(scn, ctx),
        "flow" => w_flow::execute(scn, ctx),
        "ser" => w_ser::execute(scn, ctx),
        "dgram" => w_dgram::execute(scn, ctx),
        "taps" => w_taps::execute(scn, ctx),
        _ => {}
    }
}

/// Fields the minimiser may shrink: only those whose value carries no sender-side expectation
/// (everything else is reduced by dropping whole items only).
pub fn shrinkable(world: &str, kind: &str, field: &str) -> bool {
    match (world, kind, field) {
        ("defrag", "rec" | "nocopy", "data" | "rep" | "n") => true,
        ("taps", "struct" | "trail", "bytes") | ("taps", "seg", "n") => true,
        ("stream", "rec", "data") | ("stream", "garbage" | "insert", "data") | ("stream", "seg", "n") => true,
        _ => false,
    }
}

pub struct Meta {
    pub level: &'static str,
    pub rule: &'static str,
    pub fault_kinds: &'static [&'static str],
    pub cell_spaces: Vec<(&'static str, Option<Vec<u32>>)>,
    pub real: &'static [&'static str],
    pub stub: &'static [&'static str],
    pub assumptions: &'static [&'static str],
}

pub fn cell_name(space: &str, id: u32) -> String {
    match space {
        "defrag" => w_defrag::cell_name(id),
        "cut" | "rec" | "many" => w_stream::cell_name(space, id),
        "transition" => w_flow::cell_name(id),
        "tap" => w_taps::cell_name(id),
        "dframe" | "dfrag" | "dmany" => w_dgram::cell_name(space, id),
        _ => format!("{}#{}", space, id),
    }
}

pub fn meta(prop: Prop) -> Meta {
    match prop {
        Prop::C07 => Meta {
            level: "exploration",
            rule: "one evaluation = one seeded operation history {parse_record, parse_record_nocopy, reset} executed against one real TlsRecordsParser and, call by call, against the executable accumulate-then-parse reference model; distinct = distinct 64-bit fingerprints of the abstract trace (operation kind x content type x outcome class x size class per call); non-trivial = at least 2 records fed or at least one fault kind fired",
            fault_kinds: &["fragment", "empty-fragment", "foreign-type-interleave", "nocopy-call", "reset", "oversize-stream", "announce-lie", "header-length-disagrees"],
            cell_spaces: vec![("defrag", None)],
            real: &["TlsRecordsParser::{parse_record, parse_record_nocopy, reset, defrag_in_progress}", "parse_tls_record_with_header", "parse_tls_raw_record", "Debug of returned messages"],
            stub: &["record layer (seeded packing / split plan)", "peer message generator", "reference RFC encoder", "reference defragmentation model", "history-level split-group oracle"],
            assumptions: &[
                "the reference model delegates single-payload parsing to the real parse_tls_record_with_header (refinement of accumulation, not of payload decoding)",
                "heartbeat accumulations longer than 65535 bytes are unconstrained (no single-record counterpart): model comparison is suspended until the next reset()",
                "hand-built records parse_tls_raw_record cannot produce (header length at odds with the data, more than 2^14+256 data bytes) are unconstrained until the next reset(); error kinds are compared for the three refusals the statement names and for the completing call only; a truncated alert / ChangeCipherSpec record on an idle parser may answer Incomplete or a rejection",
                "sampled histories: a clean batch is evidence, not proof",
            ],
        },

        Prop::C06 => Meta {
            level: "exploration",
            rule: "one evaluation = one simulated run in one of four worlds: (taps, 70%) one structure of 17 kinds (TLS/DTLS records, TLS/DTLS handshake message, extension through the three dispatchers and through the 16 tag-specific single-extension parsers, SCT, SCT list, DH / ECDH / EC parameters, both digitally-signed forms), well-formed or with a single nested field changed, followed by in-flight bytes (nothing, garbage, or bytes that are valid structures themselves), delivered by a seeded segmentation schedule with the named parser applied to the buffer at every delivery event; (stream, 20%) record streams where every framed record is re-parsed on its exact extent, as buffered, and with the whole rest of the stream behind it, plus per-message containment against the sender's byte layout; (dgram, 10%) DTLS datagrams; distinct = distinct abstract traces; non-trivial = at least 2 delivery events / records or a fault fired",
            fault_kinds: &["trailing-inflight", "length-lie", "seg-dribble", "coalesce", "fragment", "multi-record-datagram", "dgram-truncate"],
            cell_spaces: vec![("tap", Some((0..68).filter(|i| ![10 * 4 + 3, 11 * 4 + 3, 12 * 4 + 3, 15 * 4 + 3, 16 * 4 + 3].contains(i)).collect()))],
            real: &["the tapped self-delimiting parsers (17 kinds)", "parse_tls_record_with_header", "parse_dtls_plaintext_record"],
            stub: &["structure encoders (RFC layouts)", "byte pipe / datagram net / record layer", "slice provenance walker over all returned types", "declared-extent framers"],
            assumptions: &[
                "the check compares runs of the same parser on b and b++x (locality), never parsed values with sent values (that would be C04/C05/C13/C14, which are not claimed)",
                "an empty slice has no bytes, so only non-empty slices are subject to the provenance audit; PskExchangeModes(Vec<u8>) is exempt by design",
                "outcome stability is required from the first Ok, and for errors once the declared extent (fixed-position length field) is fully buffered",
            ],
        },
        Prop::C01 => Meta {
            level: "exploration",
            rule: "one evaluation = one simulated run in one of six worlds with the no-unwind / per-call heap-meter / hang-watchdog invariants evaluated on EVERY call into the crate: (taps, 40%) the confused monitor applies all 83 public parse functions (with Debug and Display of every returned value) to a structure in flight at every delivery event, structures being well-formed or hit by 1..4 single-byte length/field lies; (stream, 25%) TLS byte streams incl. the hostile channel (bit flips, byte drops/insertions, length lies, garbage, oversize headers, EOF anywhere); (defrag, 15%) TlsRecordsParser histories with all record-layer faults incl. streams up to the 10 MiB bound and corrupted payloads; (dgram, 10%) DTLS datagrams with truncation and bit flips; (ser, 5%) serializer under sink faults; (flow, 5%) state machine; built with debug-assertions and overflow-checks; distinct = distinct abstract traces; non-trivial = >= 2 events or a fault fired",
            fault_kinds: &["length-lie", "trailing-inflight", "seg-dribble", "bitflip", "byte-drop", "byte-insert", "garbage-inject", "eof", "empty-fragment", "foreign-type-interleave", "oversize-stream", "reset", "nocopy-call", "dgram-truncate", "write-short"],
            cell_spaces: vec![],
            real: &["all 83 public parse_* functions (allparsers.rs)", "TlsRecordsParser", "tls_state_transition", "gen_* serializers", "Debug / Display of every returned value"],
            stub: &["all stubs of the other worlds", "counting GlobalAlloc (per-thread, per-call peak)", "watchdog thread (real clock used only to declare a hang)"],
            assumptions: &[
                "heap bound per call: peak additional live heap <= A*len + 1 MiB with A = 16 x the largest returned element type (computed from the real types at run time), plus 3 x MAX_RECORD_DATA for TlsRecordsParser calls",
                "inputs are corruptions of well-formed traffic and injected garbage up to ~70 000 bytes (streams up to 11 MiB in the oversize scenario); this samples, it does not enumerate all byte strings",
                "allocation failure is not injected (it aborts rather than unwinds and the crate has no fallible-allocation path)",
            ],
        },
        Prop::C02 => Meta {
            level: "fault_enumeration",
            rule: "one evaluation = one simulated TLS byte stream (1..10 records, all content types, boundary-biased declared lengths incl. the 16640/16641 cap, length lies, trailing garbage, hostile bit/byte faults) delivered to the monitor by a seeded segmentation schedule; at EVERY delivery event the real parse_tls_raw_record / parse_tls_encrypted / parse_tls_plaintext / parse_tls_record_header are applied to the receive buffer and compared with the 5-byte reference framer, and a Needed-driven reader must emit every complete record; under the seg-dribble and boundary-dribble schedules every cut point 0..=5+len of every record in the stream is enumerated; distinct = distinct 64-bit fingerprints of the abstract trace (per framing attempt: content type x outcome classes x buffer size class); non-trivial = at least 2 records or 2 delivery events or a fault fired",
            fault_kinds: &["seg-dribble", "trailing-inflight", "eof", "length-lie", "garbage-inject", "bitflip", "byte-drop", "byte-insert", "malformed-first", "malformed-tail", "coalesce", "many-small-records", "bulk-inflight-64k"],
            cell_spaces: vec![("cut", None)],
            real: &["parse_tls_raw_record", "parse_tls_encrypted", "parse_tls_plaintext", "parse_tls_record_header", "Debug of returned records"],
            stub: &["peer message generator", "reference RFC encoder", "record layer", "TCP-like pipe with seeded segmentation / EOF / corruption", "reference 5-byte framer", "Needed-driven reader"],
            assumptions: &[
                "the reference framer (type u8, version u16, length u16 big-endian, cap 2^14+256) is the specification of framing",
                "the Needed value before the 5 header bytes are available is unconstrained, as the property states",
                "cut points are enumerated per sampled record (fault enumeration over the delivery schedule); the records themselves are sampled",
            ],
        },
        Prop::C03 => Meta {
            level: "exploration",
            rule: "one evaluation = one simulated conversation: seeded abstract messages (all 17 handshake variants, CCS, alerts, application data, heartbeat with padding) packed into records by a seeded record layer (coalescing of same-type messages; in the malformed-peer batch constructively malformed first messages, empty payloads, unknown content types and malformed tails), delivered through the byte pipe; for every framed record the real one-step (parse_tls_plaintext) and two-step (raw record + parse_tls_record_with_header) pipelines are compared with the sender's log, field by field through an independent value->abstract-item walker; distinct = distinct abstract traces; non-trivial = >= 2 records / events or a fault fired",
            fault_kinds: &["coalesce", "crowded-record", "malformed-first", "malformed-tail", "seg-dribble", "trailing-inflight", "eof"],
            cell_spaces: vec![("rec", Some((0..18).filter(|i| ![3 * 3 + 1, 3 * 3 + 2, 4 * 3 + 2, 5 * 3, 5 * 3 + 2].contains(i)).collect()))],
            real: &["parse_tls_plaintext", "parse_tls_raw_record", "parse_tls_record_with_header", "all per-message and handshake body parsers reached through them", "Debug of returned values"],
            stub: &["peer message generator", "reference RFC encoder", "record layer (packing plan)", "byte pipe", "sent-log / delivered-log comparator"],
            assumptions: &[
                "strict oracle only on packings for which the crate promises delivery (complete same-type messages per record); malformed inputs are constructed with certain verdicts, never guessed from random corruption",
                "an empty remainder is compared by length only (it has no bytes whose address could matter)",
                "the value oracle runs on RFC-valid messages (gen::rfc_valid: vector bounds, assigned enum values, structurally valid digitally-signed / key-exchange / OCSP bodies), one time in three with the inner structure real traffic carries; arbitrary bytes in those fields are exercised by the worlds that have no value oracle (C01, C07, C08)",
            ],
        },
        Prop::C08 => Meta {
            level: "exploration",
            rule: "one evaluation = one simulated two-party conversation at message level: the peers follow a seeded walk through the documented flow grammar, the fault layer perturbs the message history (drop, duplicate, reorder, cross-direction skew at the tap through per-direction latency on the simulated clock, direction flip, injection of any message kind, alert and HelloRequest injection, mid-stream pickup in any of the 25 states), and the passive monitor feeds every message (constructed values, or in the integrated batch values produced by the real parser from the wire) to the real tls_state_transition; each step is compared with the reference flow acceptor derived from the declarative grammar; distinct = distinct abstract traces (sequence of (state, direction, token, result) steps); non-trivial = at least 2 steps or a fault fired",
            fault_kinds: &["msg-drop", "msg-dup", "msg-reorder", "cross-direction-skew", "direction-flip", "msg-inject", "alert-inject", "hello-request-inject", "midstream-pickup", "record-fragmentation"],
            cell_spaces: vec![("transition", Some((0..1150).collect()))],
            real: &["tls_state_transition", "integrated batch (1/3 of runs): parse_tls_raw_record -> per-direction TlsRecordsParser::parse_record (with seeded record-layer fragmentation) -> tls_state_transition, the composition the crate documentation prescribes"],
            stub: &["client / server peers (flow grammar walk)", "message-level fault layer", "per-direction latency / tap ordering on the simulated clock", "reference flow acceptor", "message constructors"],
            assumptions: &[
                "the reference acceptor is a transcription of the documented flows and of the property statement (limited independence: not a second implementation by another author)",
                "steps the statement leaves open are followed, not judged (counter oracle/steps_the_statement_leaves_open): ChangeCipherSpec from the peer the flow does not have send it, HelloRequest sent by the client or arriving in state Finished, CertificateStatus not followed by ServerKeyExchange, the client's ChangeCipherSpec of a resumed session; after such a step the conversation stays under the acceptor only if the implementation landed where the corresponding flow continues",
                "message content is sampled within each kind; the 25 x 2 x 23 cell coverage is measured and reported, not guaranteed",
            ],
        },
        Prop::C09 => Meta {
            level: "exploration",
            rule: "one evaluation = one run of the sending node: 1..4 serialization operations on seeded values (ClientHello incl. up to 32767 ciphers / 255 compressions / 65535-byte extension blocks, ServerHello SSLv3..TLS1.2, draft-18 ServerHello, ClientKeyExchange Unknown/Dh/Ecdh, Finished, HelloRequest, ChangeCipherSpec, plaintext records of them, SNI / max-fragment-length / supported-groups extensions and lists, unsupported values, and values obtained from the real parser) written through gen(f, sink) into the simulated Write sink under a seeded fault plan, or through Serialize::serialize; the receiving node is the real parser; distinct = distinct abstract traces (value kind x entry point x sink mode x outcome x size class per operation); non-trivial = at least 2 operations or a fault configured",
            fault_kinds: &["write-short", "write-zero", "write-interrupted", "write-error", "sink-full", "write-interrupted-burst", "sink-fault-fired", "coalesce", "value-from-parser"],
            cell_spaces: vec![("ser", None)],
            real: &["gen_tls_plaintext", "gen_tls_message", "gen_tls_clienthello", "gen_tls_serverhello", "gen_tls_serverhellodraft18", "gen_tls_clientkeyexchange", "gen_tls_finished", "gen_tls_hellorequest", "gen_tls_changecipherspec", "gen_tls_extension(s)", "Serialize::serialize", "parse_tls_plaintext / parse_tls_message_handshake / parse_tls_message_changecipherspec / parse_tls_extensions (receiving node)", "cookie-factory WriteContext (dependency, real)"],
            stub: &["value generator", "reference RFC encoder (byte oracle)", "simulated Write sink with fault plan", "fixed-size &mut [u8] sink (std impl)"],
            assumptions: &[
                "values are drawn within the stated wire limits (session id absent or 1..32 bytes, SSLv3 ServerHello without extension block, draft-18 form with version 0x7f12, records within the record cap)",
                "faulty sink oracle is deliberately narrow: the call may fail; only 'Ok => the sink holds the complete fault-free encoding' is required",
                "extension values stay inside the RFC vector bounds (names and lists non-empty, max-fragment codes 1..4); a record payload above 2^14 bytes may be refused (if it is serialized, all oracles apply); kinds outside the statement's list that answer Ok are held to 'parses back to the same value' only",
            ],
        },
        Prop::C10 => Meta {
            level: "exploration",
            rule: "one evaluation = one simulated DTLS conversation: a sender stub emits flights of handshake messages (ClientHello with cookie, HelloVerifyRequest, ServerHello, Certificate, ServerHelloDone, ClientKeyExchange and, as fragments only, other kinds) with message_seq, fragmented to a per-run MTU (64..1500), packed into records and datagrams (several fragments per record, several records per datagram, CCS/alert records, epochs and 48-bit sequence numbers incl. boundaries) and retransmitted by timers on the simulated clock (1 s doubling to 60 s) with possible MTU change (overlapping fragments); the datagram network loses, duplicates, reorders and truncates; the monitor runs the real parsers on every delivered datagram; distinct = distinct abstract traces (per datagram/record: content type x outcome class x size class); non-trivial = at least 2 datagrams delivered or a fault fired",
            fault_kinds: &["dgram-loss", "dgram-dup", "dgram-reorder", "dgram-truncate", "multi-record-datagram", "fragment", "zero-length-fragment", "overlapping-fragments", "delivered-unfragmented", "reassembled", "cap-sized-record", "synthetic-fragment-header", "many-small-records", "trunc-dribble"],
            cell_spaces: vec![("dframe", Some((0..16).collect())), ("dfrag", Some(vec![1, 3, 4, 5, 6, 7])), ("dmany", None)],
            real: &["parse_dtls_plaintext_records", "parse_dtls_plaintext_record", "parse_dtls_record_header", "parse_dtls_record_with_header", "parse_dtls_message_handshake", "DTLSMessage::is_fragment", "Debug of returned values"],
            stub: &["DTLS sender (flights, MTU fragmentation, retransmit timers)", "simulated clock / event queue", "datagram network (loss, dup, reorder, truncate)", "reference RFC encoder", "reference 13-byte framer", "harness reassembler (consumes only parser output)"],
            assumptions: &[
                "the parser is stateless: loss/dup/reorder cannot change what one datagram decodes to; their role is to generate (offset, length, seq, epoch, MTU) combinations and to make the conservation oracle bite when a header field is returned wrong",
                "unfragmented messages of kinds the property does not list are unconstrained (records containing one are excluded from the sender-side truth table); listed kinds carry RFC-valid values; stray fragments use assigned handshake types",
                "bounded liveness is checked as conservation at the end of the history: every message all of whose bytes were delivered in fragments is reassembled from parser output",
            ],
        },
        Prop::C16 => Meta {
            level: "exploration",
            rule: "one evaluation = one simulated TLS byte stream (see C02) ; at every delivery event tls_parser_many is applied to the monitor's receive buffer (n complete records followed by nothing, a partial record, an oversize header or garbage) and compared with an explicit loop over parse_tls_plaintext (list, remainder by address, fails-iff-first-fails), and the deprecated tls_parser with parse_tls_plaintext as full results; DTLS datagram buffers are covered by the dgram world; distinct = distinct abstract traces; non-trivial = >= 2 records / events or a fault fired",
            fault_kinds: &["seg-dribble", "trailing-inflight", "eof", "length-lie", "garbage-inject", "bitflip", "byte-drop", "byte-insert", "coalesce", "many-small-records", "cap-sized-record", "multi-record-datagram", "dgram-truncate"],
            cell_spaces: vec![("many", Some(vec![0, 1, 2, 4, 5, 6, 8, 9, 10, 12, 13, 14])), ("dmany", Some(vec![0, 1, 2, 3, 4, 5, 6, 7, 8, 9, 10, 11]))],
            real: &["tls_parser_many", "tls_parser", "parse_tls_plaintext", "parse_dtls_plaintext_records", "parse_dtls_plaintext_record"],
            stub: &["peers, encoder, record layer, byte pipe / datagram net", "explicit single-record loop"],
            assumptions: &["the single-record parser is the specification of the many-parser (relation between two real functions)"],
        },
    }
}
