//! World `dgram` (W-DTLS): sender stub with flights, MTU fragmentation and retransmit timers on a
//! simulated clock -> UDP-like network (loss, duplication, reordering, truncation) -> passive
//! monitor running the REAL DTLS parsers on every datagram.
//! Oracles (C10): per-datagram header/fragment oracle against the sender's log, reference
//! 13-byte framer (cap, exact consumption, Incomplete iff truncated, exact Needed), end-to-end
//! reassembly conservation using only what the real parser returned. C16: many-parser vs loop.

use crate::core::{Ctx, Prop};
use crate::enc;
use crate::gen;
use crate::item::{Item, Scenario, Val};
use crate::prng::Rng;
use crate::res::{split, Outcome};
use crate::val;
use crate::visit::{self, Slices};
use std::cmp::Reverse;
use std::collections::{BTreeMap, BinaryHeap};
use tls_parser::*;

pub const CAP: usize = 16640;

/// kinds whose unfragmented body the DTLS parser decodes (the property's list)
const SUPPORTED: &[&str] = &["d_client_hello", "d_hello_verify", "server_hello", "certificate", "server_done", "client_key_exchange"];
const OTHER: &[&str] = &["server_key_exchange", "certificate_request", "certificate_verify", "finished", "new_session_ticket", "certificate_status", "next_protocol", "hello_retry_request"];

// ------------------------------------------------------------------ Phase A: sender + network

#[derive(Clone)]
struct Frag {
    m: u64,
    off: usize,
    len: usize,
}

#[derive(Clone)]
enum Content {
    Frags(Vec<Frag>),
    Raw(Vec<u8>),
    /// synthetic fragments of messages that are never completed: arbitrary 24-bit header values
    /// (type, total length, message_seq, fragment offset, fragment bytes)
    Synth(Vec<(u8, u64, u16, u64, Vec<u8>)>),
}

#[derive(Clone)]
struct Rec {
    ctype: u8,
    ver: u16,
    epoch: u16,
    seqno: u64,
    content: Content,
    declen: Option<u64>,
}

fn gen_msg(rng: &mut Rng, strict: bool) -> Item {
    let budget = if rng.chance(1, 10) { rng.urange(300, 3000) } else { rng.urange(10, 200) };
    let k = if rng.chance(2, 3) { *rng.pick(SUPPORTED) } else { *rng.pick(OTHER) };
    let mut m = match k {
        "d_client_hello" => gen::d_client_hello(rng, budget),
        "d_hello_verify" => gen::d_hello_verify(rng),
        "server_hello" => {
            let mut m = gen::handshake(rng, "server_hello", budget);
            // DTLS ServerHello always has the optional extension block form, whatever the version says
            let v = *rng.pick(&[0xfefdu64, 0xfefd, 0xfeff, 0x0100]);
            m.set("ver", Val::Int(v));
            m
        }
        k => gen::handshake(rng, k, budget),
    };
    if SUPPORTED.contains(&k) {
        // "decode to the values that were encoded": well-formed (RFC-valid) values only
        m = gen::rfc_valid(rng, m);
    }
    if !SUPPORTED.contains(&k) && strict {
        // kinds the property does not list travel only as fragments: make the body fragmentable
        if enc::hs_body(&m).len() < 2 {
            m = Item::new("finished").bytes("body", &rng.bytes(12));
        }
    }
    m
}

pub fn generate(rng: &mut Rng, prop: Prop) -> Scenario {
    let mut s = Scenario::new("dgram");
    // batch 0: strict (well-formed traffic, transport faults only); 1: framing (length lies,
    // oversize, unknown types, garbage); 2: hostile (corrupted datagrams; C01)
    let batch = match prop {
        Prop::C01 => *rng.pick(&[0u64, 1, 2, 2]),
        Prop::C16 => *rng.pick(&[0u64, 1, 1]),
        _ => *rng.pick(&[0u64, 0, 0, 1]),
    };
    let mut mtu = *rng.pick(&[64usize, 80, 100, 128, 256, 576, 1200, 1500]);
    if rng.chance(1, 4) {
        mtu = rng.urange(64, 1500);
    }
    // swarm: enabled transport faults
    let f_loss = rng.chance(1, 2);
    let f_dup = rng.chance(1, 3);
    let f_reorder = rng.chance(1, 2);
    let f_trunc = rng.chance(1, 3);
    let f_mtu_change = rng.chance(1, 3);
    let f_multi = rng.chance(1, 2);
    let f_zero = rng.chance(1, 4);
    let f_epoch = rng.chance(1, 3);
    let f_seqb = rng.chance(1, 4);
    let loss_stops_after = rng.urange(1, 3); // retransmission round from which the network is clean
    s.push(Item::new("knob").int("batch", batch).int("mtu", mtu as u64));

    // messages and flights
    let nmsg = rng.urange(1, 6 * crate::prng::depth());
    let mut msgs: Vec<Item> = Vec::new();
    let seq_base: u16 = match rng.below(4) {
        0 | 1 => 0,
        2 => rng.u16(),
        _ => *rng.pick(&[255u16, 256, 65530, 0x7fff, 0x8000, 0xff00]),
    };
    let _ = f_seqb;
    let huge = rng.chance(1, 150);
    for i in 0..nmsg {
        let mut m = gen_msg(rng, batch == 0);
        if huge && i == 0 {
            // a certificate chain larger than 64 KiB: fragment offsets beyond 16 bits
            let n = rng.urange(22, 30);
            m = Item::new("certificate").list("certs", (0..n).map(|_| rng.bytes(2900)).collect());
        }
        msgs.push(m.int("_id", i as u64).int("_seq", seq_base.wrapping_add(i as u16) as u64));
    }
    let bodies: Vec<Vec<u8>> = msgs.iter().map(enc::hs_body).collect();
    let mut flights: Vec<Vec<usize>> = Vec::new();
    let mut i = 0;
    while i < nmsg {
        let n = rng.urange(1, 3).min(nmsg - i);
        flights.push((i..i + n).collect());
        i += n;
    }
    for m in &msgs {
        s.push(m.clone());
    }

    let ver: u16 = *rng.pick(&[0xfefdu16, 0xfeff, 0xfefd]);
    let mut epoch: u16 = if f_epoch && rng.chance(1, 2) { rng.u16() } else { 0 };
    let mut seqno: u64 = if f_seqb { *rng.pick(&[0u64, 0xffff_ffff_fff0, 0xffff_ffff_ffff - 40, 1 << 47]) } else { 0 };

    // datagram list (global index) and the event loop
    let mut dgrams: Vec<Vec<Rec>> = Vec::new();
    let mut deliveries: Vec<(u64, usize, Option<usize>, &'static str)> = Vec::new(); // (time, dgram, trunc, fault)
    let mut q: BinaryHeap<Reverse<(u64, u64, usize, usize)>> = BinaryHeap::new(); // (time, seq, flight, attempt)
    let mut evseq = 0u64;
    let mut now = 0u64;
    let mut arrivals: BinaryHeap<Reverse<(u64, u64, usize, Option<usize>, &'static str)>> = BinaryHeap::new();
    if !flights.is_empty() {
        q.push(Reverse((0, evseq, 0, 0)));
        evseq += 1;
    }
    // per-flight: bytes of each message delivered so far (sender-side knowledge = implicit ack)
    let mut covered: Vec<Vec<bool>> = bodies.iter().map(|b| vec![false; b.len()]).collect();
    let mut seen_whole: Vec<bool> = vec![false; nmsg];
    while let Some(Reverse((t, _, fl, attempt))) = q.pop() {
        now = now.max(t);
        // process arrivals up to t (so the sender knows what got through)
        while let Some(Reverse((at, _, d, trunc, fault))) = arrivals.peek().cloned() {
            if at > t {
                break;
            }
            arrivals.pop();
            deliveries.push((at, d, trunc, fault));
            mark_covered(&dgrams[d], trunc, &bodies, &mut covered, &mut seen_whole);
        }
        let done = flights[fl].iter().all(|&m| seen_whole[m] || (covered[m].iter().all(|&c| c) && !bodies[m].is_empty()));
        if attempt > 0 && (done || attempt > 5) {
            // flight acknowledged (or given up): next flight
            if fl + 1 < flights.len() {
                q.push(Reverse((t + rng.range(100, 3000), evseq, fl + 1, 0)));
                evseq += 1;
            }
            continue;
        }
        // (re)transmit the flight at the current MTU
        if attempt > 0 && f_mtu_change {
            mtu = *rng.pick(&[64usize, 96, 128, 300, 576, 1400]);
        }
        let clean = attempt >= loss_stops_after;
        let mut recs: Vec<Rec> = Vec::new();
        for &m in &flights[fl] {
            let body = &bodies[m];
            let room = mtu.saturating_sub(13 + 12).max(1);
            let supported = SUPPORTED.contains(&msgs[m].kind.as_str());
            let mut cuts: Vec<(usize, usize)> = Vec::new();
            if body.len() <= room && (supported || batch != 0) && !(rng.chance(1, 6) && body.len() >= 2) {
                cuts.push((0, body.len()));
            } else {
                // fragment: cut anywhere; at least two fragments when the kind is not decodable unfragmented
                let mut off = 0;
                let pieces_min = if body.len() >= 2 { 2 } else { 1 };
                while off < body.len() {
                    let maxl = room.min(body.len() - off);
                    let mut l = if rng.chance(1, 3) { maxl } else { rng.urange(1, maxl) };
                    if cuts.is_empty() && pieces_min == 2 && l == body.len() {
                        l = body.len() - 1;
                    }
                    cuts.push((off, l));
                    off += l;
                }
                if f_zero && rng.chance(1, 2) && !body.is_empty() {
                    // zero-length fragment somewhere (legal: carries no bytes)
                    let at = rng.urange(0, body.len());
                    cuts.insert(rng.usize_below(cuts.len() + 1), (at, 0));
                }
                if attempt > 0 && rng.chance(1, 3) && body.len() >= 3 {
                    // overlapping fragment on retransmission
                    let a = rng.usize_below(body.len() - 1);
                    let l = rng.urange(1, (body.len() - a).min(room));
                    cuts.push((a, l));
                }
            }
            for (off, len) in cuts {
                seqno = (seqno + 1) & 0xffff_ffff_ffff;
                recs.push(Rec { ctype: 22, ver, epoch, seqno, content: Content::Frags(vec![Frag { m: m as u64, off, len }]), declen: None });
            }
            if rng.chance(1, 6) {
                // a stray fragment of some other (never completed) message with arbitrary header values
                let total = match rng.below(4) {
                    0 => 0xff_ffff,
                    1 => rng.range(2, 0xff_ffff),
                    2 => rng.range(2, 70000),
                    _ => rng.range(2, 600),
                };
                let flen = rng.small_len(60).min(total as usize - 1);
                let off = match rng.below(4) {
                    0 => total - flen as u64, // reaches the end exactly
                    1 => 0,
                    _ => rng.range(0, total - flen as u64),
                };
                let (off, flen) = if off == 0 && flen as u64 == total { (0, flen - 1) } else { (off, flen) };
                // (assigned handshake types: the statement ranges over lengths and offsets, not over types)
                let t = *rng.pick(&[0u8, 1, 2, 3, 4, 11, 12, 13, 14, 15, 16, 20, 22]);
                // a fragment may also run past the end of its message (offset + fragment_length > length):
                // with a non-zero offset it is a Fragment all the same
                let (off, flen) = if rng.chance(1, 6) && total < 0xff_0000 {
                    let off = rng.range(1, total);
                    (off, (total - off) as usize + rng.urange(1, 40))
                } else {
                    (off, flen)
                };
                seqno = (seqno + 1) & 0xffff_ffff_ffff;
                let ms = seq_base.wrapping_add(100 + rng.below(50) as u16);
                recs.push(Rec { ctype: 22, ver, epoch, seqno, content: Content::Synth(vec![(t, total, ms, off, rng.bytes(flen))]), declen: None });
            }
            if rng.chance(1, 12) {
                // header with fragment_length > length at offset 0: not a fragment; the message is its
                // first `length` bytes (opaque kinds only, so the expected body is unambiguous)
                let total = rng.small_len(40) as u64;
                let extra = rng.urange(1, 8);
                let t = *rng.pick(&[14u8, 16]);
                seqno = (seqno + 1) & 0xffff_ffff_ffff;
                let ms = seq_base.wrapping_add(200 + rng.below(50) as u16);
                recs.push(Rec { ctype: 22, ver, epoch, seqno, content: Content::Synth(vec![(t, total, ms, 0, rng.bytes(total as usize + extra))]), declen: None });
            }
            if rng.chance(1, 8) {
                // a ChangeCipherSpec or alert record inside the flight
                seqno = (seqno + 1) & 0xffff_ffff_ffff;
                if rng.chance(1, 2) {
                    let ccs = match rng.below(6) {
                        0 => vec![*rng.pick(&[0u8, 2, 0x14, 0xff])],
                        1 => vec![1, 1, rng.u8()],
                        2 => Vec::new(),
                        _ => vec![1],
                    };
                    recs.push(Rec { ctype: 20, ver, epoch, seqno, content: Content::Raw(ccs), declen: None });
                    if f_epoch {
                        epoch = epoch.wrapping_add(1);
                        seqno = 0;
                    }
                } else {
                    let n = *rng.pick(&[2usize, 2, 2, 4, 6, 1, 3, 0]);
                    recs.push(Rec { ctype: 21, ver, epoch, seqno, content: Content::Raw(rng.bytes(n)), declen: None });
                }
            }
        }
        if rng.chance(1, 25) {
            // a long run of tiny records (alerts / CCS) in the flight
            let n = match rng.below(8) {
                0 | 1 => *rng.pick(&[15usize, 16, 17, 31, 32, 33, 63, 64, 65, 127, 128, 129]),
                2 => *rng.pick(&[1000usize, 1023, 1024, 1025, 1150, 2047, 2048, 2049, 4096, 4400]),
                _ => rng.urange(5, 150),
            };
            for _ in 0..n {
                seqno = (seqno + 1) & 0xffff_ffff_ffff;
                if rng.chance(1, 2) {
                    recs.push(Rec { ctype: 20, ver, epoch, seqno, content: Content::Raw(vec![1]), declen: None });
                } else {
                    recs.push(Rec { ctype: 21, ver, epoch, seqno, content: Content::Raw(vec![1, rng.u8()]), declen: None });
                }
            }
            if mtu < 20000 && rng.chance(2, 3) {
                mtu = if n > 200 { 65000 } else { 4000 }; // let them share one datagram
            }
        }
        if batch >= 1 && rng.chance(1, 30) {
            // a record around the cap whose payload is really present (decodable CCS bytes or alerts)
            let n = *rng.pick(&[16638usize, 16640, 16641, 16642, 16644, 17000]);
            seqno = (seqno + 1) & 0xffff_ffff_ffff;
            if rng.chance(1, 2) {
                recs.push(Rec { ctype: 20, ver, epoch, seqno, content: Content::Raw(vec![1; n]), declen: None });
            } else {
                recs.push(Rec { ctype: 21, ver, epoch, seqno, content: Content::Raw([1u8, 0].repeat(n / 2)), declen: None });
            }
        }
        if batch >= 1 && rng.chance(1, 3) {
            // record versions are not validated by the parser: any value may appear on any record
            for r in recs.iter_mut() {
                if rng.chance(1, 3) {
                    r.ver = if rng.chance(1, 2) { *rng.pick(&[0x0100u16, 0x0303, 0x0301, 0xfefc, 0xfffe, 0x0000]) } else { rng.u16() };
                }
            }
        }
        if batch >= 1 {
            // framing faults on individual records
            for r in recs.iter_mut() {
                match rng.below(12) {
                    0 => r.declen = Some(*rng.pick(&[0u64, 1, 16640, 16641, 65535])),
                    1 => r.ctype = *rng.pick(&[0u8, 19, 23, 24, 25, 255]),
                    2 => {
                        let n = rng.small_len(40);
                        r.content = Content::Raw(rng.bytes(n));
                    }
                    _ => {}
                }
            }
        }
        // merge consecutive handshake fragments into one record sometimes, then pack records into datagrams
        let mut merged: Vec<Rec> = Vec::new();
        for r in recs {
            let can = matches!((&r.content, merged.last().map(|l: &Rec| (&l.content, l.ctype, l.declen))), (Content::Frags(_), Some((Content::Frags(_), 22, None)))) && r.ctype == 22 && r.declen.is_none();
            if can && f_multi && rng.chance(1, 4) && rec_len(merged.last().unwrap(), &bodies) + rec_len(&r, &bodies) - 13 <= mtu.max(64) {
                if let (Content::Frags(a), Content::Frags(b)) = (&mut merged.last_mut().unwrap().content, r.content) {
                    a.extend(b);
                }
            } else {
                merged.push(r);
            }
        }
        // sequence numbers are the sender's business: a retransmitting or buggy peer repeats them, a
        // reordering one sends them decreasing; the parser returns what is on the wire
        if f_seqb && rng.chance(1, 2) {
            for i in 1..merged.len() {
                match rng.below(6) {
                    0 => merged[i].seqno = merged[i - 1].seqno,
                    1 => merged[i].seqno = merged[i - 1].seqno.saturating_sub(rng.range(1, 3)),
                    2 => {
                        merged[i].seqno = merged[i - 1].seqno;
                        merged[i].epoch = merged[i - 1].epoch;
                    }
                    _ => {}
                }
            }
        }
        let mut cur: Vec<Rec> = Vec::new();
        let mut cur_len = 0usize;
        let mut flight_dgrams: Vec<usize> = Vec::new();
        for r in merged {
            let l = rec_len(&r, &bodies);
            if !cur.is_empty() && (!f_multi || cur_len + l > mtu || rng.chance(1, 3)) {
                dgrams.push(std::mem::take(&mut cur));
                flight_dgrams.push(dgrams.len() - 1);
                cur_len = 0;
            }
            cur_len += l;
            cur.push(r);
        }
        if !cur.is_empty() {
            dgrams.push(cur);
            flight_dgrams.push(dgrams.len() - 1);
        }
        // the network
        for d in flight_dgrams {
            let dl = dgrams[d].iter().map(|r| rec_len(r, &bodies)).sum::<usize>();
            let mut copies = 1;
            let mut fault: &'static str = "";
            if !clean && f_loss && rng.chance(1, 4) {
                copies = 0;
                fault = "dgram-loss";
            } else if !clean && f_dup && rng.chance(1, 5) {
                copies = 2;
                fault = "dgram-dup";
            }
            if copies == 0 {
                deliveries.push((t, d, Some(usize::MAX), "dgram-loss"));
            }
            for c in 0..copies {
                let delay = if f_reorder && !clean { rng.range(1_000, 400_000) } else { 20_000 + d as u64 };
                let trunc = if !clean && f_trunc && rng.chance(1, 5) { Some(rng.usize_below(dl.max(1))) } else { None };
                let f = if trunc.is_some() { "dgram-truncate" } else if c == 1 { "dgram-dup" } else { fault };
                arrivals.push(Reverse((t + delay, evseq, d, trunc, f)));
                evseq += 1;
            }
        }
        // retransmission timer (RFC 6347 4.2.4.1: 1 s initial, doubling, 60 s cap)
        let rto = (1_000_000u64 << attempt.min(6)).min(60_000_000);
        q.push(Reverse((t + rto, evseq, fl, attempt + 1)));
        evseq += 1;
    }
    while let Some(Reverse((at, _, d, trunc, fault))) = arrivals.pop() {
        deliveries.push((at, d, trunc, fault));
    }
    deliveries.sort_by_key(|d| d.0);

    // emit the datagram definitions and the delivery schedule
    for d in &dgrams {
        s.push(Item::new("dg"));
        for r in d {
            let mut it = Item::new("r").int("type", r.ctype as u64).int("ver", r.ver as u64).int("epoch", r.epoch as u64).int("seqno", r.seqno);
            if let Some(l) = r.declen {
                it = it.int("declen", l);
            }
            s.push(it);
            match &r.content {
                Content::Frags(fs) => {
                    for f in fs {
                        s.push(Item::new("f").int("m", f.m).int("off", f.off as u64).int("len", f.len as u64));
                    }
                }
                Content::Raw(b) => s.push(Item::new("c").bytes("data", b)),
                Content::Synth(v) => {
                    for (t, total, ms, off, data) in v {
                        s.push(Item::new("fx").int("type", *t as u64).int("total", *total).int("mseq", *ms as u64).int("off", *off).bytes("data", data));
                    }
                }
            }
        }
    }
    if batch == 2 {
        for _ in 0..rng.urange(1, 3) {
            // anywhere in the datagram (the position is taken modulo its length), biased to the headers
            let at = if rng.chance(1, 2) { rng.below(64) } else { rng.below(20000) };
            s.push(Item::new("flip").int("dg", rng.usize_below(dgrams.len().max(1)) as u64).int("at", at).int("bit", rng.below(8)).int("wrap", 1));
        }
    }
    // trunc-dribble: one datagram additionally delivered cut at EVERY byte 0..=len (enumerates all
    // truncation points of that datagram for the Incomplete-iff-truncated / exact-Needed contract)
    if !dgrams.is_empty() && rng.chance(1, 12) {
        let d = rng.usize_below(dgrams.len());
        let dl = dgrams[d].iter().map(|r| rec_len(r, &bodies)).sum::<usize>();
        if dl <= 1600 {
            let t0 = deliveries.last().map(|x| x.0).unwrap_or(0) + 1000;
            for i in 0..=dl {
                deliveries.push((t0 + i as u64, d, Some(i), "trunc-dribble"));
            }
        }
    }
    let mut reordered = false;
    let mut last_d = 0usize;
    for (t, d, trunc, fault) in &deliveries {
        if *trunc == Some(usize::MAX) {
            s.push(Item::new("lost").int("dg", *d as u64).int("t", *t));
            continue;
        }
        if *d < last_d {
            reordered = true;
        }
        last_d = *d;
        let mut it = Item::new("deliver").int("dg", *d as u64).int("t", *t);
        if let Some(n) = trunc {
            it = it.int("trunc", *n as u64);
        }
        if !fault.is_empty() {
            it = it.str("fault", fault);
        } else if reordered && f_reorder {
            it = it.str("fault", "dgram-reorder");
        }
        s.push(it);
    }
    s
}

fn rec_len(r: &Rec, bodies: &[Vec<u8>]) -> usize {
    13 + match &r.content {
        Content::Frags(fs) => fs.iter().map(|f| 12 + f.len.min(bodies[f.m as usize].len().saturating_sub(f.off))).sum::<usize>(),
        Content::Raw(b) => b.len(),
        Content::Synth(v) => v.iter().map(|x| 12 + x.4.len()).sum::<usize>(),
    }
}

fn mark_covered(d: &[Rec], trunc: Option<usize>, bodies: &[Vec<u8>], covered: &mut [Vec<bool>], seen_whole: &mut [bool]) {
    let mut off = 0usize;
    for r in d {
        let l = rec_len(r, bodies);
        let whole = trunc.map(|t| off + l <= t).unwrap_or(true);
        if whole && r.ctype == 22 && r.declen.is_none() {
            if let Content::Frags(fs) = &r.content {
                for f in fs {
                    let m = f.m as usize;
                    for i in f.off..(f.off + f.len).min(bodies[m].len()) {
                        covered[m][i] = true;
                    }
                    if f.off == 0 && f.len == bodies[m].len() {
                        seen_whole[m] = true;
                    }
                }
            }
        }
        off += l;
    }
}

// ------------------------------------------------------------------ sender log rebuilt from the scenario (Phase B)

#[derive(Clone, Debug)]
struct LFrag {
    m: usize, // item index of the message
    mtype: u8,
    mseq: u16,
    total: usize,
    off: usize,
    len: usize,
    /// absolute byte range of the fragment body inside the datagram
    at: (usize, usize),
}

#[derive(Clone, Debug)]
struct LRec {
    start: usize,
    end: usize,
    ctype: u8,
    ver: u16,
    epoch: u16,
    seqno: u64,
    declared: usize,
    lied: bool,
    frags: Vec<LFrag>,
    raw: bool,
}

struct LDgram {
    bytes: Vec<u8>,
    recs: Vec<LRec>,
}

fn build(scn: &Scenario) -> (Vec<LDgram>, Vec<(usize, Vec<u8>)>) {
    // messages: (item index, body)
    let mut msgs: BTreeMap<u64, (usize, Vec<u8>)> = BTreeMap::new();
    for (i, it) in scn.items.iter().enumerate() {
        if it.has("_id") && it.has("_seq") {
            msgs.insert(it.u("_id"), (i, enc::hs_body(it)));
        }
    }
    let mut out: Vec<LDgram> = Vec::new();
    let mut cur: Option<(LRec, Vec<u8>)> = None;
    fn close(cur: &mut Option<(LRec, Vec<u8>)>, out: &mut Vec<LDgram>) {
        if let Some((mut r, payload)) = cur.take() {
            if let Some(d) = out.last_mut() {
                let start = d.bytes.len();
                let declared = if r.lied { r.declared } else { payload.len() };
                r.lied = declared != payload.len();
                r.declared = declared;
                d.bytes.extend(enc::dtls_record(r.ctype, r.ver, r.epoch, r.seqno, declared as u64, &payload));
                r.start = start;
                r.end = d.bytes.len();
                for f in r.frags.iter_mut() {
                    f.at = (f.at.0 + start + 13, f.at.1 + start + 13);
                }
                d.recs.push(r);
            }
        }
    }
    for it in &scn.items {
        match it.kind.as_str() {
            "dg" => {
                close(&mut cur, &mut out);
                out.push(LDgram { bytes: Vec::new(), recs: Vec::new() });
            }
            "r" => {
                close(&mut cur, &mut out);
                if out.is_empty() {
                    out.push(LDgram { bytes: Vec::new(), recs: Vec::new() });
                }
                cur = Some((
                    LRec {
                        start: 0,
                        end: 0,
                        ctype: it.u("type") as u8,
                        ver: it.u("ver") as u16,
                        epoch: it.u("epoch") as u16,
                        seqno: it.u("seqno") & 0xffff_ffff_ffff,
                        declared: it.u("declen") as usize,
                        lied: it.has("declen"),
                        frags: Vec::new(),
                        raw: false,
                    },
                    Vec::new(),
                ));
            }
            "f" => {
                if let (Some((r, payload)), Some((mi, body))) = (cur.as_mut(), msgs.get(&it.u("m"))) {
                    let off = (it.u("off") as usize).min(body.len());
                    let len = (it.u("len") as usize).min(body.len() - off);
                    let m = &scn.items[*mi];
                    let mtype = enc::dtls_hs_type(&m.kind);
                    let mseq = m.u("_seq") as u16;
                    let hdr_at = payload.len();
                    payload.extend(enc::dtls_handshake(mtype, body.len() as u64, mseq, off as u64, len as u64, &body[off..off + len]));
                    r.frags.push(LFrag { m: *mi, mtype, mseq, total: body.len(), off, len, at: (hdr_at + 12, hdr_at + 12 + len) });
                }
            }
            "fx" => {
                if let Some((r, payload)) = cur.as_mut() {
                    let data = it.b("data");
                    let hdr_at = payload.len();
                    payload.extend(enc::dtls_handshake(it.u("type") as u8, it.u("total"), it.u("mseq") as u16, it.u("off"), data.len() as u64, data));
                    r.frags.push(LFrag { m: usize::MAX, mtype: it.u("type") as u8, mseq: it.u("mseq") as u16, total: it.u("total") as usize, off: it.u("off") as usize, len: data.len(), at: (hdr_at + 12, hdr_at + 12 + data.len()) });
                }
            }
            "c" => {
                if let Some((r, payload)) = cur.as_mut() {
                    payload.extend_from_slice(it.b("data"));
                    r.raw = true;
                }
            }
            _ => {}
        }
    }
    close(&mut cur, &mut out);
    let bodies = msgs.into_values().collect();
    (out, bodies)
}

// ------------------------------------------------------------------ reference DTLS framer

#[derive(Clone, Copy, Debug, PartialEq)]
enum Frame {
    NeedHeader,
    TooLarge,
    Partial { missing: usize },
    Complete { len: usize },
}

fn frame(b: &[u8]) -> (Frame, u8, u16, u16, u64, u16) {
    if b.len() < 13 {
        return (Frame::NeedHeader, 0, 0, 0, 0, 0);
    }
    let t = b[0];
    let ver = u16::from_be_bytes([b[1], b[2]]);
    let epoch = u16::from_be_bytes([b[3], b[4]]);
    let mut s8 = [0u8; 8];
    s8[2..].copy_from_slice(&b[5..11]);
    let seq = u64::from_be_bytes(s8);
    let len = u16::from_be_bytes([b[11], b[12]]);
    let f = if len as usize > CAP {
        Frame::TooLarge
    } else if b.len() < 13 + len as usize {
        Frame::Partial { missing: 13 + len as usize - b.len() }
    } else {
        Frame::Complete { len: len as usize }
    };
    (f, t, ver, epoch, seq, len)
}

fn rel(base: &[u8], s: &[u8]) -> (i64, usize) {
    if s.is_empty() {
        return (-1, 0);
    }
    (s.as_ptr() as i64 - base.as_ptr() as i64, s.len())
}

fn rel_is(got: (i64, usize), off: usize, len: usize) -> bool {
    if got.1 == 0 {
        len == 0
    } else {
        got.0 == off as i64 && got.1 == len
    }
}

/// address-free image of one parsed handshake message
#[derive(Clone, Debug, PartialEq)]
struct PMsg {
    kind: u8, // 0 handshake, 1 ccs, 2 alert, 3 other
    mtype: u8,
    length: u32,
    mseq: u16,
    foff: u32,
    flen: u32,
    is_fragment: bool,
    frag: Option<(i64, usize)>, // Fragment body position relative to the record start
    frag_bytes: Vec<u8>,
    body: Item,
    alert: (u8, u8),
}

#[derive(Clone, Debug, PartialEq)]
struct PRec {
    out: Outcome,
    ctype: u8,
    ver: u16,
    epoch: u16,
    seq: u64,
    len: u16,
    rem: (i64, usize),
    msgs: Vec<PMsg>,
    slices_outside: Option<&'static str>,
}

fn image(base: &[u8], m: &DTLSMessage) -> PMsg {
    let mut p = PMsg { kind: 3, mtype: 0, length: 0, mseq: 0, foff: 0, flen: 0, is_fragment: m.is_fragment(), frag: None, frag_bytes: vec![], body: Item::new("-"), alert: (0, 0) };
    match m {
        DTLSMessage::Handshake(h) => {
            p.kind = 0;
            p.mtype = h.msg_type.0;
            p.length = h.length;
            p.mseq = h.message_seq;
            p.foff = h.fragment_offset;
            p.flen = h.fragment_length;
            p.body = val::dtls_body_to_item(&h.body);
            if let DTLSMessageHandshakeBody::Fragment(f) = &h.body {
                p.frag = Some(rel(base, f));
                p.frag_bytes = f.to_vec();
            }
        }
        DTLSMessage::ChangeCipherSpec => p.kind = 1,
        DTLSMessage::Alert(a) => {
            p.kind = 2;
            p.alert = (a.severity.0, a.code.0);
        }
        #[allow(unreachable_patterns)]
        _ => {}
    }
    p
}

fn parse_one(ctx: &mut Ctx, b: &[u8]) -> Option<PRec> {
    ctx.call("parse_dtls_plaintext_record", b.len(), 0, || {
        let (out, v) = split(parse_dtls_plaintext_record(b));
        match v {
            Some((rem, r)) => crate::guard::unmetered(|| {
                let _ = format!("{:?}", r);
                let mut sl = Slices::new();
                for m in &r.messages {
                    visit::dtls_message(&mut sl, m);
                }
                let used = b.len() - rem.len();
                let outside = visit::first_outside(&sl, b.as_ptr() as usize + 13.min(used), used.saturating_sub(13)).map(|x| x.1);
                PRec {
                    out,
                    ctype: r.header.content_type.0,
                    ver: r.header.version.0,
                    epoch: r.header.epoch,
                    seq: r.header.sequence_number,
                    len: r.header.length,
                    rem: rel(b, rem),
                    msgs: r.messages.iter().map(|m| image(b, m)).collect(),
                    slices_outside: outside,
                }
            }),
            None => PRec { out, ctype: 0, ver: 0, epoch: 0, seq: 0, len: 0, rem: (-1, 0), msgs: vec![], slices_outside: None },
        }
    })
}

// ------------------------------------------------------------------ Phase B

struct Reasm {
    total: usize,
    mtype: u8,
    data: Vec<Option<u8>>,
    conflict: bool,
    delivered_whole: bool,
}

pub fn execute(scn: &Scenario, ctx: &mut Ctx) {
    let (mut dgrams, _bodies) = build(scn);
    let mut corrupted: Vec<bool> = vec![false; dgrams.len()];
    for it in scn.items.iter().filter(|i| i.kind == "flip") {
        let d = it.u("dg") as usize;
        if let Some(dg) = dgrams.get_mut(d) {
            let mut at = it.u("at") as usize;
            if it.u("wrap") == 1 && !dg.bytes.is_empty() {
                at %= dg.bytes.len();
            }
            if at < dg.bytes.len() {
                dg.bytes[at] ^= 1 << (it.u("bit") & 7);
                corrupted[d] = true;
                ctx.fault("bitflip");
            }
        }
    }
    // what the sender knows about every message: item index -> body
    let mut sent_body: BTreeMap<usize, Vec<u8>> = BTreeMap::new();
    for (i, it) in scn.items.iter().enumerate() {
        if it.has("_id") && it.has("_seq") {
            sent_body.insert(i, enc::hs_body(it));
        }
    }
    // delivered coverage per message (sender-side truth) and the harness reassembler (parser-side)
    let mut truth: BTreeMap<usize, Vec<bool>> = sent_body.iter().map(|(k, b)| (*k, vec![false; b.len()])).collect();
    let mut reasm: BTreeMap<u16, Reasm> = BTreeMap::new();
    let mut any_corrupt_delivered = false;
    let mut ndeliv = 0u32;

    for it in &scn.items {
        match it.kind.as_str() {
            "lost" => {
                ctx.fault("dgram-loss");
                continue;
            }
            "deliver" => {}
            _ => continue,
        }
        let d = it.u("dg") as usize;
        let dg = match dgrams.get(d) {
            Some(x) => x,
            None => continue,
        };
        ndeliv += 1;
        ctx.sim_time_us = ctx.sim_time_us.max(it.u("t"));
        match it.s("fault") {
            "dgram-dup" => ctx.fault("dgram-dup"),
            "dgram-reorder" => ctx.fault("dgram-reorder"),
            "dgram-truncate" => ctx.fault("dgram-truncate"),
            "trunc-dribble" => ctx.fault("trunc-dribble"),
            _ => {}
        }
        let cut = it.u_opt("trunc").map(|t| (t as usize).min(dg.bytes.len())).unwrap_or(dg.bytes.len());
        let bytes = &dg.bytes[..cut];
        let trusted = !corrupted[d];
        if !trusted {
            any_corrupt_delivered = true;
        }
        if dg.recs.len() > 1 {
            ctx.fault("multi-record-datagram");
        }
        if dg.recs.len() > 10 {
            ctx.fault("many-small-records");
        }
        if dg.recs.iter().any(|r| r.end - r.start > 13 + 16000) {
            ctx.fault("cap-sized-record");
        }
        ctx.log(0xd6, d as u64, cut as u64);

        // ---- C16: many-parser vs explicit loop on the datagram as delivered
        let mut loop_recs: Vec<PRec> = Vec::new();
        let mut off = 0usize;
        loop {
            let sub = &bytes[off..];
            match parse_one(ctx, sub) {
                Some(p) if p.out.is_ok() => {
                    let used = sub.len() - p.rem.1;
                    if used == 0 {
                        break;
                    }
                    loop_recs.push(p);
                    off += used;
                }
                _ => break,
            }
        }
        let many = ctx.call("parse_dtls_plaintext_records", bytes.len(), 0, || {
            let (out, v) = split(parse_dtls_plaintext_records(bytes));
            (
                out,
                v.map(|(rem, rs)| crate::guard::unmetered(|| {
                    let _ = format!("{:?}", rs);
                    let hdrs: Vec<(u8, u16, u16, u64, u16, Vec<PMsg>)> = rs
                        .iter()
                        .map(|r| (r.header.content_type.0, r.header.version.0, r.header.epoch, r.header.sequence_number, r.header.length, r.messages.iter().map(|m| { let mut p = image(bytes, m); p.frag = None; p }).collect()))
                        .collect();
                    (rel(bytes, rem), hdrs)
                })),
            )
        });
        if let Some((out, v)) = many {
            ctx.count("oracle/many_vs_loop_evaluations", 1);
            ctx.cell("dmany", (loop_recs.len().min(3) as u32) * 3 + if off == bytes.len() { 0 } else if bytes.len() - off < 13 { 1 } else { 2 });
            ctx.trace(0xd6, out.code() & 0xfffff | (loop_recs.len() as u64) << 24, bytes.len());
            if loop_recs.is_empty() {
                if out.is_ok() {
                    ctx.violate(Prop::C16, "many/fails-iff", || format!("parse_dtls_plaintext_records succeeded on a {}-byte datagram whose first record does not parse", bytes.len()));
                }
            } else {
                match v {
                    None => ctx.violate(Prop::C16, "many/fails-iff", || format!("parse_dtls_plaintext_records answered {} although the first {} record(s) parse", out.show(), loop_recs.len())),
                    Some((rem, hdrs)) => {
                        let want: Vec<(u8, u16, u16, u64, u16, Vec<PMsg>)> = loop_recs.iter().map(|p| (p.ctype, p.ver, p.epoch, p.seq, p.len, p.msgs.iter().map(|m| { let mut m = m.clone(); m.frag = None; m }).collect())).collect();
                        if hdrs != want && off == bytes.len() {
                            // C10: "several records in one datagram decode record by record" - a datagram made
                            // of n decodable records and nothing else yields exactly those n records
                            ctx.violate(Prop::C10, "dtls/several-records", || format!("a {}-byte datagram of {} decodable records: parse_dtls_plaintext_records returned {} record(s) (or their contents differ)", bytes.len(), want.len(), hdrs.len()));
                        }
                        if hdrs != want {
                            ctx.violate(Prop::C16, "many/list", || format!("parse_dtls_plaintext_records returned {} record(s), the explicit loop {} (or their contents differ)", hdrs.len(), want.len()));
                        } else if !rel_is(rem, off, bytes.len() - off) {
                            ctx.violate(Prop::C16, "many/remainder", || format!("parse_dtls_plaintext_records remainder (offset, len) {:?}, the loop stops at offset {} of {}", rem, off, bytes.len()));
                        }
                    }
                }
            }
        }

        // ---- C10: record by record against the reference framer and the sender's log
        let mut pos = 0usize;
        let mut ri = 0usize;
        while pos < bytes.len() || (pos == 0 && bytes.is_empty()) {
            let sub = &bytes[pos..];
            let p = match parse_one(ctx, sub) {
                Some(p) => p,
                None => break,
            };
            let (f, t, ver, epoch, seq, len) = frame(sub);
            check_header_parser(ctx, sub);
            let fcell = match f {
                Frame::NeedHeader => 0,
                Frame::TooLarge => 1,
                Frame::Partial { .. } => 2,
                Frame::Complete { .. } => 3,
            };
            ctx.cell("dframe", fcell * 4 + match sub.first().copied().unwrap_or(0) { 20 => 0, 21 => 1, 22 => 2, _ => 3 });
            ctx.trace(0xd7, p.out.code() & 0xfffff | (t as u64) << 24, sub.len());
            match f {
                Frame::NeedHeader => {
                    if !p.out.is_incomplete() {
                        ctx.violate(Prop::C10, "dtls/incomplete-iff", || format!("{} bytes (< 13-byte header) answered {}", sub.len(), p.out.show()));
                    }
                    break;
                }
                Frame::TooLarge => {
                    if !p.out.is_rejection() {
                        ctx.violate(Prop::C10, "dtls/cap", || format!("declared length {} > 16640 answered {} (expected a rejection)", len, p.out.show()));
                    }
                    break;
                }
                Frame::Partial { missing } => {
                    if !p.out.is_incomplete() {
                        ctx.violate(Prop::C10, "dtls/incomplete-iff", || format!("record truncated by the network ({} of {} bytes) answered {}", sub.len(), 13 + len as usize, p.out.show()));
                    }
                    // (C10 repeats the cap, exact consumption and Incomplete-iff-truncated of TLS, not the
                    // exact-Needed sentence of C02)
                    let _ = missing;
                    break;
                }
                Frame::Complete { len: l } => {
                    if p.out.is_incomplete() {
                        ctx.violate(Prop::C10, "dtls/incomplete-iff", || format!("complete record (type {}, {} payload bytes, {} buffered) answered {}", t, l, sub.len(), p.out.show()));
                    }
                    if p.out.is_ok() {
                        if (p.ctype, p.ver, p.len) != (t, ver, len) {
                            ctx.violate(Prop::C10, "dtls/header-field/type-version-length", || format!("decoded type {} version {:#06x} length {}, wire type {} version {:#06x} length {}", p.ctype, p.ver, p.len, t, ver, len));
                        }
                        if p.epoch != epoch {
                            ctx.violate(Prop::C10, "dtls/header-field/epoch", || format!("decoded epoch {}, wire epoch {} (sequence {:#x})", p.epoch, epoch, seq));
                        }
                        if p.seq != seq {
                            ctx.violate(Prop::C10, "dtls/header-field/sequence_number", || format!("decoded sequence number {:#x}, wire {:#x} (epoch {})", p.seq, seq, epoch));
                        }
                        if !rel_is(p.rem, 13 + l, sub.len() - 13 - l) {
                            ctx.violate(Prop::C10, "dtls/remainder", || format!("remainder (offset, len) {:?}, expected ({}, {})", p.rem, 13 + l, sub.len() - 13 - l));
                        }
                        if let Some(label) = p.slices_outside {
                            ctx.violate(Prop::C06, "provenance/outside-consumed", || format!("parse_dtls_plaintext_record: slice `{}` lies outside the record's {} payload bytes", label, l));
                        }
                    }
                    // sender's log for this record
                    let lrec = if trusted { dg.recs.iter().find(|r| r.start == pos && r.end == pos + 13 + l && !r.lied) } else { None };
                    if let Some(lr) = lrec {
                        ctx.count("oracle/records_compared_with_sender_log", 1);
                        let constrained = record_oracle(ctx, scn, lr, &p, sub);
                        ri += 1;
                        // feed the harness reassembler and the truth table
                        if p.out.is_ok() {
                            for m in &p.msgs {
                                if m.kind == 0 {
                                    feed(&mut reasm, m);
                                }
                            }
                        }
                        for fr in lr.frags.iter().filter(|_| constrained) {
                            let is_frag = fr.off > 0 || fr.len < fr.total;
                            if !is_frag {
                                ctx.fault("delivered-unfragmented");
                                continue;
                            }
                            ctx.fault("fragment");
                            if fr.len == 0 {
                                ctx.fault("zero-length-fragment");
                            }
                            if let Some(tv) = truth.get_mut(&fr.m) {
                                if tv[fr.off..fr.off + fr.len].iter().any(|&c| c) {
                                    ctx.fault("overlapping-fragments");
                                }
                                for i in fr.off..fr.off + fr.len {
                                    tv[i] = true;
                                }
                            }
                        }
                    }
                    pos += 13 + l;
                    if !p.out.is_ok() {
                        // a rejected record: a monitor skips it using the frame
                        continue;
                    }
                }
            }
            if bytes.is_empty() {
                break;
            }
        }
        let _ = ri;
    }
    if ndeliv >= 2 {
        ctx.nontrivial = true;
    }

    // ---- end-to-end conservation: every message all of whose bytes arrived at least once as
    // true fragments in intact, well-framed records is rebuilt byte-exact, exactly once per
    // message_seq, from what the real parser returned (and from nothing else)
    if !any_corrupt_delivered {
        for (mi, body) in &sent_body {
            let m = &scn.items[*mi];
            let mseq = m.u("_seq") as u16;
            if body.is_empty() || !truth.get(mi).map(|v| v.iter().all(|&c| c)).unwrap_or(false) {
                continue;
            }
            // a message_seq shared by two messages of the scenario (or by a stray synthetic fragment)
            // has no unique reassembly: skip
            if scn.items.iter().filter(|i| i.has("_seq") && i.has("_id") && i.u("_seq") as u16 == mseq).count() != 1 || scn.items.iter().any(|i| i.kind == "fx" && i.u("mseq") as u16 == mseq) {
                continue;
            }
            ctx.fault("reassembled");
            ctx.count("oracle/messages_reassembled_end_to_end", 1);
            let r = match reasm.get(&mseq) {
                Some(r) => r,
                None => {
                    ctx.violate(Prop::C10, "reassembly/missing", || format!("message_seq {} ({}, {} bytes): all fragments were delivered at least once, the parser returned none of them", mseq, m.kind, body.len()));
                    continue;
                }
            };
            if r.total != body.len() || r.data.iter().any(|x| x.is_none()) {
                let missing = r.data.iter().filter(|x| x.is_none()).count();
                ctx.violate(Prop::C10, "reassembly/missing", || format!("message_seq {} ({}): the network delivered every byte of the {}-byte body in fragments, the reassembler (fed only with parser output) has total {} and {} bytes missing", mseq, m.kind, body.len(), r.total, missing));
                continue;
            }
            let got: Vec<u8> = r.data.iter().map(|x| x.unwrap()).collect();
            if r.conflict || got != *body {
                ctx.violate(Prop::C10, "reassembly/bytes", || format!("message_seq {} ({}): reassembled {} bytes differ from the sent body (conflicting overlap: {})", mseq, m.kind, got.len(), r.conflict));
                continue;
            }
            // the rebuilt body, re-framed as an unfragmented message, decodes to the sent value
            if SUPPORTED.contains(&m.kind.as_str()) {
                let whole_msg = enc::dtls_handshake(r.mtype, got.len() as u64, mseq, 0, got.len() as u64, &got);
                let res = ctx.call("parse_dtls_message_handshake", whole_msg.len(), 0, || {
                    let (out, v) = split(parse_dtls_message_handshake(&whole_msg));
                    (out, v.map(|(rem, m)| (rem.len(), image(&whole_msg, &m))))
                });
                if let Some((out, v)) = res {
                    match v {
                        Some((0, pm)) if val::same(&pm.body, m) => {}
                        Some((rem, pm)) => ctx.violate(Prop::C10, format!("dtls/body/{}", m.kind), || format!("reassembled message_seq {}: {} ({} bytes unconsumed)", mseq, val::diff(m, &pm.body), rem)),
                        None => ctx.violate(Prop::C10, format!("dtls/body/{}", m.kind), || format!("reassembled message_seq {} ({}): re-framed message answered {}", mseq, m.kind, out.show())),
                    }
                }
            }
        }
    }
}

fn feed(reasm: &mut BTreeMap<u16, Reasm>, m: &PMsg) {
    let total = m.length as usize;
    if total > 1 << 20 {
        return;
    }
    let e = reasm.entry(m.mseq).or_insert_with(|| Reasm { total, mtype: m.mtype, data: vec![None; total], conflict: false, delivered_whole: false });
    if e.total != total || e.mtype != m.mtype {
        e.conflict = true;
        return;
    }
    if !m.is_fragment {
        e.delivered_whole = true;
        return;
    }
    let off = m.foff as usize;
    for (i, b) in m.frag_bytes.iter().enumerate() {
        if off + i < e.data.len() {
            match e.data[off + i] {
                Some(x) if x != *b => e.conflict = true,
                _ => e.data[off + i] = Some(*b),
            }
        } else {
            e.conflict = true;
        }
    }
}

fn check_header_parser(ctx: &mut Ctx, b: &[u8]) {
    // C10 names no function for the bare header; the verbatim-fields clause is checked on the record
    // parsers. The header-only parser runs under the no-panic invariant only.
    let _ = ctx.call("parse_dtls_record_header", b.len(), 0, || {
        let (out, v) = split(parse_dtls_record_header(b));
        (out, v.map(|(rem, h)| (rel(b, rem), h.content_type.0, h.version.0, h.epoch, h.sequence_number, h.length)))
    });
}

/// returns true when the record is a handshake record the property constrains (all of its
/// messages are fragments or unfragmented messages of the listed kinds)
fn record_oracle(ctx: &mut Ctx, scn: &Scenario, lr: &LRec, p: &PRec, sub: &[u8]) -> bool {
    if lr.raw && !lr.frags.is_empty() {
        return false;
    }
    // C10's quantifier does not range over record versions: acceptance is only demanded for records
    // carrying a DTLS version (the many-vs-loop relation of C16 is checked for every version)
    if !matches!(lr.ver, 0xfeff | 0xfefd | 0xfefc | 0x0100) {
        return false;
    }
    if !lr.frags.is_empty() && lr.ctype == 22 {
        // handshake record: every message's 12-byte header verbatim, fragment predicate and body
        let all_ok = lr.frags.iter().all(|f| {
            let is_frag = f.off > 0 || f.len < f.total;
            is_frag || (f.m != usize::MAX && SUPPORTED.contains(&scn.items[f.m].kind.as_str()))
        });
        if !all_ok {
            return false; // an unfragmented message of a kind the property does not list: unconstrained
        }
        if !p.out.is_ok() {
            ctx.violate(Prop::C10, "dtls/record-rejected", || format!("handshake record carrying {} well-formed message(s)/fragment(s) answered {}", lr.frags.len(), p.out.show()));
            return true;
        }
        if p.msgs.len() != lr.frags.len() {
            ctx.violate(Prop::C10, "dtls/record-order", || format!("record carries {} handshake messages, parser returned {}", lr.frags.len(), p.msgs.len()));
            return true;
        }
        for (i, (f, m)) in lr.frags.iter().zip(p.msgs.iter()).enumerate() {
            if f.m == usize::MAX {
                ctx.fault("synthetic-fragment-header");
            }
            // is_fragment() and the body variant must tell the same story
            if m.kind == 0 && m.is_fragment != (m.body.kind == "fragment") {
                ctx.violate(Prop::C10, "dtls/fragment-predicate", || format!("message {}: is_fragment() = {} but the body is `{}`", i, m.is_fragment, m.body.kind));
            }
            if m.kind != 0 {
                ctx.violate(Prop::C10, "dtls/record-order", || format!("message {} of the record is not a handshake message", i));
                continue;
            }
            if m.mtype != f.mtype {
                ctx.violate(Prop::C10, "dtls/header-field/msg_type", || format!("message {}: msg_type {} decoded, {} sent", i, m.mtype, f.mtype));
            }
            if m.length as usize != f.total {
                ctx.violate(Prop::C10, "dtls/header-field/length", || format!("message {}: length {} decoded, {} sent", i, m.length, f.total));
            }
            if m.mseq != f.mseq {
                ctx.violate(Prop::C10, "dtls/header-field/message_seq", || format!("message {}: message_seq {} decoded, {} sent", i, m.mseq, f.mseq));
            }
            if m.foff as usize != f.off {
                ctx.violate(Prop::C10, "dtls/header-field/fragment_offset", || format!("message {}: fragment_offset {} decoded, {} sent", i, m.foff, f.off));
            }
            if m.flen as usize != f.len {
                ctx.violate(Prop::C10, "dtls/header-field/fragment_length", || format!("message {}: fragment_length {} decoded, {} sent", i, m.flen, f.len));
            }
            let is_frag = f.off > 0 || f.len < f.total;
            ctx.count(if is_frag { "oracle/fragments_checked" } else { "oracle/unfragmented_bodies_compared" }, 1);
            ctx.cell("dfrag", (is_frag as u32) * 4 + (f.len == 0) as u32 * 2 + (f.off + f.len == f.total) as u32);
            if m.is_fragment != is_frag {
                ctx.violate(Prop::C10, "dtls/fragment-predicate", || format!("message {}: offset {} fragment_length {} length {}: is_fragment() = {}, expected {}", i, f.off, f.len, f.total, m.is_fragment, is_frag));
                continue;
            }
            if is_frag {
                let want_at = (f.at.0 - lr.start, f.len);
                match m.frag {
                    Some(at) if rel_is(at, want_at.0, want_at.1) => {}
                    other => ctx.violate(Prop::C10, "dtls/fragment-body", || format!("message {}: Fragment body at (offset, len) {:?} of the record, expected {:?} (exactly fragment_length opaque bytes)", i, other, want_at)),
                }
            } else if f.m != usize::MAX && !val::same(&m.body, &scn.items[f.m]) {
                let sent = &scn.items[f.m];
                ctx.violate(Prop::C10, format!("dtls/body/{}", sent.kind), || format!("unfragmented message {}: {}", i, val::diff(sent, &m.body)));
            }
        }
        return true;
    } else if lr.raw && lr.ctype == 20 {
        // ChangeCipherSpec records decode as in TLS: one message per 0x01 byte, decoding stops at the
        // first other byte, and a record that does not start with 0x01 (or is empty) is rejected
        let n = lr.end - lr.start - 13;
        if sub.len() >= 13 + n {
            let k = sub[13..13 + n].iter().take_while(|&&b| b == 1).count();
            ctx.count("oracle/ccs_alert_records_checked", 1);
            if k == 0 {
                if p.out.is_ok() {
                    ctx.violate(Prop::C10, "dtls/ccs", || format!("ChangeCipherSpec record of {} byte(s) not starting with 0x01 yielded {} message(s)", n, p.msgs.len()));
                }
            } else if !p.out.is_ok() || p.msgs.len() != k || p.msgs.iter().any(|m| m.kind != 1) {
                ctx.violate(Prop::C10, "dtls/ccs", || format!("ChangeCipherSpec record with {} leading 0x01 byte(s) of {} answered {} with {} messages", k, n, p.out.show(), p.msgs.len()));
            }
        }
    } else if lr.raw && lr.ctype == 21 {
        // alert records decode as in TLS: (level, description) pairs in wire order
        let n = lr.end - lr.start - 13;
        if sub.len() >= 13 + n {
            let k = n / 2;
            ctx.count("oracle/ccs_alert_records_checked", 1);
            if k == 0 {
                if p.out.is_ok() {
                    ctx.violate(Prop::C10, "dtls/alert", || format!("alert record of {} byte(s) yielded {} message(s)", n, p.msgs.len()));
                }
            } else if !p.out.is_ok() || p.msgs.len() != k || p.msgs.iter().any(|m| m.kind != 2) {
                ctx.violate(Prop::C10, "dtls/alert", || format!("alert record with {} alert(s) answered {} with {} messages", k, p.out.show(), p.msgs.len()));
            } else if let Some(i) = (0..k).find(|&i| p.msgs[i].alert != (sub[13 + 2 * i], sub[13 + 2 * i + 1])) {
                ctx.violate(Prop::C10, "dtls/alert", || format!("alert {} of the record: decoded (level {}, description {}), wire bytes ({}, {})", i, p.msgs[i].alert.0, p.msgs[i].alert.1, sub[13 + 2 * i], sub[13 + 2 * i + 1]));
            }
        }
    }
    false
}

pub fn cell_name(space: &str, id: u32) -> String {
    match space {
        "dframe" => format!("{}/{}", ["inside-header", "oversize", "truncated-in-record", "complete"][(id / 4) as usize % 4], ["ccs", "alert", "handshake", "other"][(id % 4) as usize]),
        "dfrag" => format!("{}{}{}", if id & 4 != 0 { "fragment" } else { "unfragmented" }, if id & 2 != 0 { "/zero-length" } else { "" }, if id & 1 != 0 { "/reaches-end" } else { "" }),
        "dmany" => format!("{} records/{}", (id / 3).min(3), ["nothing behind", "partial header behind", "partial/garbage/oversize behind"][(id % 3) as usize]),
        _ => format!("{}#{}", space, id),
    }
}
