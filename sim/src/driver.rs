//! Batch driver: Phase A/Phase B dispatch, seeded search over runs on N worker threads,
//! minimisation, replay verification in a fresh process, known-finding matching, evidence.

use crate::core::{Ctx, Prop, Stats};
use crate::guard::harness_catch;
use crate::item::{Item, Replay, Scenario, Val};
use crate::json::J;
use crate::prng::Rng;
use crate::worlds;
use std::sync::atomic::{AtomicBool, AtomicU64, Ordering};
use std::sync::{Arc, Mutex};
use std::time::Instant;

/// output / known-findings directory (the directory holding the `check` script)
pub fn verif_dir() -> String {
    std::env::var("WIRESIM_VERIF_DIR").unwrap_or_else(|_| "/verif".to_string())
}

#[derive(Clone, Copy, PartialEq, Eq, Debug)]
pub enum Tier {
    Quick,
    Thorough,
}

impl Tier {
    pub fn name(self) -> &'static str {
        match self {
            Tier::Quick => "quick",
            Tier::Thorough => "thorough",
        }
    }
}

/// Phase A: (seed, property, run index) -> explicit scenario. Nothing else draws from the PRNG.
pub fn generate(prop: Prop, seed: u64, idx: u64) -> Scenario {
    let mut rng = Rng::for_run(seed, prop.tag(), idx);
    worlds::generate(prop, &mut rng)
}

/// Phase B: pure function of the scenario and the code under test.
pub fn execute(scn: &Scenario, prop: Prop) -> Ctx {
    let mut ctx = Ctx::new(prop);
    worlds::execute(scn, &mut ctx);
    ctx
}

pub struct BatchResult {
    pub stats: Stats,
    pub wall_s: f64,
}

pub fn run_batch(prop: Prop, seed: u64, first: u64, runs: u64, threads: usize, keep_digests: bool) -> BatchResult {
    let t0 = Instant::now();
    let next = Arc::new(AtomicU64::new(first));
    let end = first + runs;
    let total = Arc::new(Mutex::new(Stats::default()));
    let stop = Arc::new(AtomicBool::new(false));
    // watchdog slots: (run index + 1, start in ms since t0); real clock is used ONLY to declare a hang
    let slots: Arc<Vec<(AtomicU64, AtomicU64)>> = Arc::new((0..threads).map(|_| (AtomicU64::new(0), AtomicU64::new(0))).collect());
    let wd = {
        let slots = slots.clone();
        let stop = stop.clone();
        std::thread::spawn(move || {
            let limit_ms: u64 = std::env::var("WIRESIM_HANG_MS").ok().and_then(|v| v.parse().ok()).unwrap_or(120_000);
            while !stop.load(Ordering::Relaxed) {
                std::thread::sleep(std::time::Duration::from_millis(200));
                let now = t0.elapsed().as_millis() as u64;
                for s in slots.iter() {
                    let idx1 = s.0.load(Ordering::Relaxed);
                    let st = s.1.load(Ordering::Relaxed);
                    if idx1 != 0 && now.saturating_sub(st) > limit_ms {
                        let idx = idx1 - 1;
                        let scn = generate(prop, seed, idx);
                        let sig = format!("hang/{}", scn.world);
                        let rp = Replay { property: prop.id().into(), signature: sig.clone(), detail: format!("run {} did not finish within {} ms", idx, limit_ms), origin: format!("seed={} run={}", seed, idx), digest: None, prelude: Vec::new(), scenario: scn };
                        let path = format!("{}/replays/{}-hang-{}.replay", verif_dir(), prop.id(), idx);
                        let _ = std::fs::create_dir_all(format!("{}/replays", verif_dir()));
                        let _ = std::fs::write(&path, rp.to_text());
                        println!("VIOLATION property={} replay={}", prop.id(), path);
                        println!("  signature {} (watchdog)", sig);
                        std::process::exit(1);
                    }
                }
            }
        })
    };
    let mut handles = Vec::new();
    for w in 0..threads {
        let next = next.clone();
        let total = total.clone();
        let slots = slots.clone();
        handles.push(std::thread::spawn(move || {
            let mut st = Stats::default();
            loop {
                let base = next.fetch_add(32, Ordering::Relaxed);
                if base >= end {
                    break;
                }
                for idx in base..(base + 32).min(end) {
                    slots[w].1.store(t0.elapsed().as_millis() as u64, Ordering::Relaxed);
                    slots[w].0.store(idx + 1, Ordering::Relaxed);
                    let scn = generate(prop, seed, idx);
                    match harness_catch(|| execute(&scn, prop)) {
                        Ok(ctx) => {
                            st.absorb(idx, &scn.world, &ctx, keep_digests);
                            if idx < first + 4 {
                                st.samples.insert(idx, scn.short(14, 160));
                            }
                        }
                        Err(loc) => st.harness_errors.push(format!("run {} (world {}): harness panic at {}", idx, scn.world, loc)),
                    }
                    slots[w].0.store(0, Ordering::Relaxed);
                }
            }
            total.lock().unwrap().merge(st);
        }));
    }
    for h in handles {
        let _ = h.join();
    }
    stop.store(true, Ordering::Relaxed);
    let _ = wd.join();
    let stats = std::mem::take(&mut *total.lock().unwrap());
    BatchResult { stats, wall_s: t0.elapsed().as_secs_f64() }
}

// ------------------------------------------------------------------ minimisation

fn reproduces(scn: &Scenario, prop: Prop, sig: &str) -> bool {
    match harness_catch(|| execute(scn, prop)) {
        Ok(ctx) => ctx.violations.iter().any(|v| v.sig == sig),
        Err(_) => false,
    }
}

/// ddmin over the item list, then per-item shrinking; keeps a candidate only if the same
/// oracle fires with the same signature. Bounded number of re-executions.
pub fn minimise(scn: &Scenario, prop: Prop, sig: &str, budget: usize) -> (Scenario, usize) {
    let mut cur = scn.clone();
    let mut tries = 0usize;
    // 1. drop chunks of items
    let mut chunk = (cur.items.len() / 2).max(1);
    loop {
        let mut i = 0;
        let mut progress = false;
        while i < cur.items.len() && tries < budget {
            let hi = (i + chunk).min(cur.items.len());
            let mut cand = cur.clone();
            cand.items.drain(i..hi);
            tries += 1;
            if reproduces(&cand, prop, sig) {
                cur = cand;
                progress = true;
            } else {
                i = hi;
            }
        }
        if tries >= budget {
            break;
        }
        if chunk == 1 {
            if !progress {
                break;
            }
        } else {
            chunk = (chunk / 2).max(1);
        }
    }
    // 2. per-item shrinking
    let mut changed = true;
    while changed && tries < budget {
        changed = false;
        for i in 0..cur.items.len() {
            let nf = cur.items[i].f.len();
            for fi in 0..nf {
                // only fields whose value carries no sender-side expectation may be altered
                if !worlds::shrinkable(&cur.world, &cur.items[i].kind, &cur.items[i].f[fi].0) {
                    continue;
                }
                let cands: Vec<Val> = match &cur.items[i].f[fi].1 {
                    Val::Bytes(b) if !b.is_empty() => {
                        let mut c = vec![Val::Bytes(Vec::new()), Val::Bytes(b[..b.len() / 2].to_vec()), Val::Bytes(b[..b.len() - 1].to_vec())];
                        if b.len() > 1 {
                            c.push(Val::Bytes(b[1..].to_vec()));
                        }
                        if b.iter().any(|&x| x != 0) && b.len() <= 64 {
                            c.push(Val::Bytes(vec![0; b.len()]));
                        }
                        c
                    }
                    Val::List(l) if !l.is_empty() => {
                        let mut c = vec![Val::List(Vec::new()), Val::List(l[..l.len() - 1].to_vec())];
                        if l.iter().any(|e| !e.is_empty()) {
                            c.push(Val::List(l.iter().map(|_| Vec::new()).collect()));
                        }
                        c
                    }
                    Val::Int(v) if *v > 0 => {
                        vec![Val::Int(0), Val::Int(v / 2), Val::Int(v - 1)]
                    }
                    _ => Vec::new(),
                };
                for c in cands {
                    if tries >= budget {
                        break;
                    }
                    let mut cand = cur.clone();
                    cand.items[i].f[fi].1 = c;
                    tries += 1;
                    if reproduces(&cand, prop, sig) {
                        cur = cand;
                        changed = true;
                        break;
                    }
                }
            }
        }
    }
    (cur, tries)
}

// ------------------------------------------------------------------ known findings

#[derive(Clone, Debug)]
pub struct Finding {
    pub property: String,
    pub signature: String,
    pub status: String,
    pub what: String,
}

pub fn load_findings() -> Result<Vec<Finding>, String> {
    let path = format!("{}/known_findings.json", verif_dir());
    let text = match std::fs::read_to_string(&path) {
        Ok(t) => t,
        Err(_) => return Ok(Vec::new()),
    };
    let j = J::parse(&text).map_err(|e| format!("{}: {}", path, e))?;
    let mut out = Vec::new();
    for e in j.get("findings").map(|f| f.as_arr()).unwrap_or(&[]) {
        let g = |k: &str| e.get(k).and_then(|v| v.as_str()).unwrap_or("").to_string();
        out.push(Finding { property: g("property"), signature: g("signature"), status: g("status"), what: g("what") });
    }
    Ok(out)
}

// ------------------------------------------------------------------ check = run + triage + evidence

pub struct CheckOpts {
    pub prop: Prop,
    pub tier: Tier,
    pub seed: u64,
    pub runs: u64,
    pub threads: usize,
    pub determinism_runs: u64,
}

fn sig_file_part(sig: &str) -> String {
    let mut s: String = sig.chars().map(|c| if c.is_ascii_alphanumeric() { c } else { '_' }).collect();
    s.truncate(60);
    s
}

/// returns the process exit code
pub fn check(o: &CheckOpts) -> i32 {
    let prop = o.prop;
    let findings = match load_findings() {
        Ok(f) => f,
        Err(e) => {
            eprintln!("HARNESS-ERROR: {}", e);
            return 2;
        }
    };
    println!("wiresim: property={} tier={} VERIF_SEED={} runs={} threads={}", prop.id(), o.tier.name(), o.seed, o.runs, o.threads);
    let res = run_batch(prop, o.seed, 0, o.runs, o.threads, false);
    let st = &res.stats;
    if !st.harness_errors.is_empty() {
        for e in st.harness_errors.iter().take(5) {
            eprintln!("HARNESS-ERROR: {}", e);
        }
        return 2;
    }

    let mut det = (0u64, 0u64);
    // triage violations: minimise, write replay, verify in a fresh process, match known findings
    let mut exit = 0;
    let mut new_violations = 0u64;
    let mut known_hits: Vec<String> = Vec::new();
    let mut reported = 0;
    let _ = std::fs::create_dir_all(format!("{}/replays", verif_dir()));
    for (sig, (idx, detail)) in st.violations.iter() {
        if reported >= 8 {
            println!("  (further distinct signatures suppressed: {} in total)", st.violations.len());
            break;
        }
        reported += 1;
        let scn = generate(prop, o.seed, *idx);
        // in isolation (a fresh thread, so no thread-local state of earlier runs is visible)
        let single_ok = {
            let scn = scn.clone();
            let sig = sig.clone();
            std::thread::spawn(move || reproduces(&scn, prop, &sig)).join().unwrap_or(false)
        };
        let mut path = format!("{}/replays/{}-{}.replay", verif_dir(), prop.id(), sig_file_part(sig));
        let mut det2 = detail.clone();
        let mut ok = false;
        if single_ok {
            let (min, tries) = minimise(&scn, prop, sig, 2000);
            let min_ctx = harness_catch(|| execute(&min, prop)).ok();
            let min_digest = min_ctx.as_ref().map(|c| c.digest);
            det2 = min_ctx.and_then(|c| c.violations.into_iter().find(|v| &v.sig == sig)).map(|v| v.detail).unwrap_or(detail.clone());
            let rp = Replay {
                property: prop.id().into(),
                signature: sig.clone(),
                digest: min_digest,
                prelude: Vec::new(),
                detail: det2.clone(),
                origin: format!("VERIF_SEED={} tier={} run={} world={} items {}->{} after {} re-executions", o.seed, o.tier.name(), idx, scn.world, scn.items.len(), min.items.len(), tries),
                scenario: min,
            };
            if let Err(e) = std::fs::write(&path, rp.to_text()) {
                eprintln!("HARNESS-ERROR: cannot write {}: {}", path, e);
                return 2;
            }
            // fresh-process replay must reproduce exactly
            let exe = std::env::current_exe().unwrap();
            let out = std::process::Command::new(exe).arg("replay").arg(&path).output();
            ok = match out {
                Ok(o) => o.status.code() == Some(1) && String::from_utf8_lossy(&o.stdout).contains(&format!("REPRODUCED signature={}", sig)) && String::from_utf8_lossy(&o.stdout).contains("digest-match=yes"),
                Err(_) => false,
            };
        }
        if !ok {
            // The violation may depend on state the code under test keeps ACROSS calls (a static or
            // thread-local): then the schedule that matters includes the runs the same worker executed
            // before. Workers take chunks of 32 consecutive run indices, so replay the chunk prefix in
            // order, in one thread of a fresh process, and reduce it.
            let chunk_start = idx - (idx % 32);
            let mut prelude: Vec<Scenario> = (chunk_start..*idx).map(|i| generate(prop, o.seed, i)).collect();
            let fin = generate(prop, o.seed, *idx);
            let seq_reproduces = |pre: &[Scenario]| -> bool {
                // a fresh thread has fresh thread-locals; statics are only reset by the fresh process below
                let pre = pre.to_vec();
                let fin = fin.clone();
                let sig = sig.clone();
                std::thread::spawn(move || {
                    for p in &pre {
                        let _ = harness_catch(|| execute(p, prop));
                    }
                    reproduces(&fin, prop, &sig)
                })
                .join()
                .unwrap_or(false)
            };
            if !seq_reproduces(&prelude) {
                eprintln!("HARNESS-ERROR: replay of {} in a fresh process did not reproduce `{}` (nor does the worker's preceding chunk of runs)", path, sig);
                return 2;
            }
            // drop prelude runs that are not needed
            let mut i = 0;
            while i < prelude.len() {
                let mut cand = prelude.clone();
                cand.remove(i);
                if seq_reproduces(&cand) {
                    prelude = cand;
                } else {
                    i += 1;
                }
            }
            det2 = if prelude.is_empty() {
                format!("{}\nHISTORY-DEPENDENT: the code under test keeps state across calls; the violation needs the complete (unminimised) operation sequence of this run", det2)
            } else {
                format!("{}\nHISTORY-DEPENDENT: the code under test keeps state across calls; the violation needs the {} preceding run(s) recorded in this file", det2, prelude.len())
            };
            let rp = Replay {
                property: prop.id().into(),
                signature: sig.clone(),
                digest: None,
                prelude,
                detail: det2.clone(),
                origin: format!("VERIF_SEED={} tier={} run={} world={} with preceding runs of the same worker chunk", o.seed, o.tier.name(), idx, fin.world),
                scenario: fin.clone(),
            };
            path = format!("{}/replays/{}-{}-history.replay", verif_dir(), prop.id(), sig_file_part(sig));
            if let Err(e) = std::fs::write(&path, rp.to_text()) {
                eprintln!("HARNESS-ERROR: cannot write {}: {}", path, e);
                return 2;
            }
            let exe = std::env::current_exe().unwrap();
            let ok2 = match std::process::Command::new(exe).arg("replay").arg(&path).output() {
                Ok(o) => o.status.code() == Some(1) && String::from_utf8_lossy(&o.stdout).contains(&format!("REPRODUCED signature={}", sig)),
                Err(_) => false,
            };
            if !ok2 {
                eprintln!("HARNESS-ERROR: history replay {} in a fresh process did not reproduce `{}`", path, sig);
                return 2;
            }
        }
        let known = findings.iter().find(|f| f.property == prop.id() && f.signature == *sig && f.status == "known");
        match known {
            Some(f) => {
                println!("KNOWN-FINDING: property={} {} [{}] replay={}", prop.id(), f.what, sig, path);
                known_hits.push(sig.clone());
            }
            None => {
                println!("VIOLATION property={} replay={}", prop.id(), path);
                println!("  signature {}", sig);
                for l in det2.lines() {
                    println!("  {}", l);
                }
                new_violations += 1;
                exit = 1;
            }
        }
    }

    // determinism proof: a sample of runs re-executed twice at worker counts 1 and N
    // (skipped when a new violation was found: the verdict is already 'violated', and code under
    // test that keeps hidden state across calls would make the digests differ for that very reason)
    if o.determinism_runs > 0 && new_violations == 0 {
        let a = run_batch(prop, o.seed, 0, o.determinism_runs, 1, true);
        let b = run_batch(prop, o.seed, 0, o.determinism_runs, o.threads, true);
        let mut da = a.stats.digests;
        let mut db = b.stats.digests;
        da.sort();
        db.sort();
        det.0 = da.len() as u64;
        det.1 = da.iter().zip(db.iter()).filter(|(x, y)| x != y).count() as u64 + (da.len() as i64 - db.len() as i64).unsigned_abs();
        if det.1 > 0 {
            eprintln!("HARNESS-ERROR: nondeterminism: {} of {} runs have different event-log digests on re-execution", det.1, det.0);
            return 2;
        }
    }

    let ev = evidence(o, &res, det, new_violations, &known_hits);
    let path = format!("{}/evidence/{}.json", verif_dir(), prop.id());
    let _ = std::fs::create_dir_all(format!("{}/evidence", verif_dir()));
    if let Err(e) = std::fs::write(&path, ev.render()) {
        eprintln!("HARNESS-ERROR: cannot write {}: {}", path, e);
        return 2;
    }
    println!(
        "wiresim: {} runs, {} calls into /repo, {} distinct non-trivial traces, {} violating runs, {:.1}s -> {}",
        st.runs,
        st.calls,
        st.fingerprints.len(),
        st.violating_runs,
        res.wall_s,
        if exit == 0 { "HELD" } else { "VIOLATED" }
    );
    exit
}

fn evidence(o: &CheckOpts, res: &BatchResult, det: (u64, u64), new_violations: u64, known_hits: &[String]) -> J {
    let st = &res.stats;
    let prop = o.prop;
    let meta = worlds::meta(prop);
    let mut faults = J::obj();
    for (k, (fires, runs)) in &st.faults {
        faults = faults.put(k, J::obj().put("fired", J::i(*fires)).put("runs", J::i(*runs)));
    }
    let mut never: Vec<String> = Vec::new();
    for f in meta.fault_kinds {
        if !st.faults.contains_key(f) {
            never.push(f.to_string());
        }
    }
    let mut cells = J::obj();
    for (space, universe) in &meta.cell_spaces {
        let hit = st.cells.get(space).map(|s| s.len()).unwrap_or(0) as u64;
        let mut missing = Vec::new();
        if let Some(u) = universe {
            let set = st.cells.get(space);
            for id in u.iter() {
                if !set.map(|s| s.contains(id)).unwrap_or(false) {
                    missing.push(worlds::cell_name(space, *id));
                }
            }
        }
        let total = universe.as_ref().map(|u| u.len() as u64);
        let mut c = J::obj().put("hit", J::i(hit));
        if let Some(t) = total {
            c = c.put("of", J::i(t)).put("never_hit_count", J::i(missing.len() as u64));
            missing.truncate(40);
            c = c.put("never_hit", J::strs(missing));
        }
        cells = cells.put(space, c);
    }
    let mut counters_j = J::obj();
    for (k, v) in &st.counters {
        counters_j = counters_j.put(k, J::i(*v));
    }
    let mut worlds_j = J::obj();
    for (w, n) in &st.worlds {
        worlds_j = worlds_j.put(w, J::i(*n));
    }
    let samples: Vec<J> = st.samples.iter().map(|(idx, lines)| J::obj().put("run", J::i(*idx)).put("scenario", J::strs(lines.clone()))).collect();
    let rph = if res.wall_s > 0.0 { (st.runs as f64 / res.wall_s * 3600.0) as u64 } else { 0 };
    let cov = J::obj()
        .put("evaluations", J::i(st.runs))
        .put("distinct_nontrivial", J::i(st.fingerprints.len() as u64))
        .put("rule", J::s(meta.rule))
        .put("samples", J::Arr(samples))
        .put("nontrivial_runs", J::i(st.nontrivial_runs))
        .put("calls_into_repo", J::i(st.calls))
        .put("events", J::i(st.events))
        .put("runs_per_hour", J::i(rph))
        .put("seeds", J::s(format!("VERIF_SEED={} x run index 0..{}", o.seed, st.runs)))
        .put("sim_time_s", J::Num(st.sim_time_us as f64 / 1e6))
        .put("worlds", worlds_j)
        .put("counters", counters_j)
        .put("counters_note", J::s("counters are summed over the shared simulation worlds of this batch; oracles that belong to other properties are evaluated there too, but only this property's violations are reported by this check"))
        .put("faults_fired", faults)
        .put("fault_kinds_never_fired", J::strs(never))
        .put("cells", cells)
        .put("components", J::obj().put("real", J::strs(meta.real.iter().copied())).put("stub", J::strs(meta.stub.iter().copied())))
        .put("determinism", J::obj().put("runs_reexecuted", J::i(det.0)).put("worker_counts", J::Arr(vec![J::i(1), J::i(o.threads as u64)])).put("mismatches", J::i(det.1)))
        .put("heap_bound_max_use", if prop == Prop::C01 { J::obj().put("permille_of_bound", J::i(st.heap_margin.0)).put("entry_point", J::s(st.heap_margin.1.clone())) } else { J::s("not measured (heap oracle belongs to C01)") })
        .put("known_findings_hit", J::strs(known_hits.iter().cloned()))
        .put("exhaustive", J::Bool(false));
    J::obj()
        .put("property_id", J::s(prop.id()))
        .put("tier", J::s(o.tier.name()))
        .put("seed", J::i(o.seed))
        .put("level", J::s(meta.level))
        .put("coverage", cov)
        .put("assumptions", J::strs(meta.assumptions.iter().copied()))
        .put("wall_s", J::Num(res.wall_s))
        .put("violations", J::i(new_violations))
}

// ------------------------------------------------------------------ replay

pub fn replay(path: &str) -> i32 {
    let text = match std::fs::read_to_string(path) {
        Ok(t) => t,
        Err(e) => {
            eprintln!("HARNESS-ERROR: cannot read {}: {}", path, e);
            return 2;
        }
    };
    let rp = match Replay::parse(&text) {
        Ok(r) => r,
        Err(e) => {
            eprintln!("HARNESS-ERROR: {}: {}", path, e);
            return 2;
        }
    };
    let prop = match Prop::parse(&rp.property) {
        Some(p) => p,
        None => {
            eprintln!("HARNESS-ERROR: unknown property {}", rp.property);
            return 2;
        }
    };
    // the execution runs in its own thread so that a hang can be declared (real clock used only for that)
    let limit_ms: u64 = std::env::var("WIRESIM_HANG_MS").ok().and_then(|v| v.parse().ok()).unwrap_or(120_000);
    let (tx, rx) = std::sync::mpsc::channel();
    let scn = rp.scenario.clone();
    let pre = rp.prelude.clone();
    std::thread::spawn(move || {
        for p in &pre {
            let _ = harness_catch(|| execute(p, prop));
        }
        let _ = tx.send(harness_catch(|| execute(&scn, prop)));
    });
    let ctx = match rx.recv_timeout(std::time::Duration::from_millis(limit_ms)) {
        Ok(Ok(c)) => c,
        Ok(Err(loc)) => {
            eprintln!("HARNESS-ERROR: harness panic at {} while replaying", loc);
            return 2;
        }
        Err(_) => {
            let sig = format!("hang/{}", rp.scenario.world);
            println!("replay: property={} world={} did not finish within {} ms", rp.property, rp.scenario.world, limit_ms);
            if rp.signature == sig || rp.signature.is_empty() {
                println!("REPRODUCED signature={} digest-match=yes", sig);
                println!("VIOLATION property={} replay={}", rp.property, path);
                std::process::exit(1);
            }
            println!("NOT-REPRODUCED signature={} (hang instead)", rp.signature);
            std::process::exit(1);
        }
    };
    if !rp.prelude.is_empty() {
        println!("replay: {} preceding run(s) executed first in the same thread", rp.prelude.len());
    }
    println!("replay: property={} world={} items={} digest={:016x}", rp.property, rp.scenario.world, rp.scenario.items.len(), ctx.digest);
    let mut hit = false;
    for v in &ctx.violations {
        println!("  violation signature={} : {}", v.sig, v.detail.replace('\n', " | "));
        if v.sig == rp.signature || rp.signature.is_empty() {
            hit = true;
        }
    }
    if hit {
        let dm = match rp.digest {
            Some(d) if d != ctx.digest => "no",
            _ => "yes",
        };
        println!("REPRODUCED signature={} digest-match={}", if rp.signature.is_empty() { ctx.violations[0].sig.clone() } else { rp.signature.clone() }, dm);
        if dm == "no" {
            eprintln!("HARNESS-ERROR: replay reproduced the signature but with a different event-log digest ({:016x} vs recorded {:016x})", ctx.digest, rp.digest.unwrap_or(0));
            return 2;
        }
        println!("VIOLATION property={} replay={}", rp.property, path);
        1
    } else {
        println!("NOT-REPRODUCED signature={}", rp.signature);
        0
    }
}

pub fn _unused(_: &Item) {}
