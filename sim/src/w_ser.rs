//! World `ser` (W-SER): the real serializer is the sending node, writing through a simulated
//! `std::io::Write` sink (S4) with short-write / zero-write / interrupted / error / full faults;
//! the real parser is the receiving node. Oracles (C09): bytes = reference encoder's bytes,
//! delivered value = sent value (documented normalisations), re-serialisation is stable,
//! unsupported values answer NotYetImplemented, and under sink faults "Ok => complete encoding".

use crate::core::{Ctx, Prop};
use crate::enc;
use crate::gen;
use crate::item::{Item, Scenario, Val};
use crate::prng::Rng;
use crate::val;
use std::io::{self, Write};
use tls_parser::rusticata_macros::Serialize as _;
use tls_parser::*;

// ------------------------------------------------------------------ the simulated sink

pub struct Sink {
    pub acc: Vec<u8>,
    mode: u64,
    k: usize,
    burst: u32,
    fired: bool,
    pub writes: u32,
    pub faults: u32,
}

impl Sink {
    fn new(mode: u64, k: usize) -> Sink {
        // modes 6.. = write-interrupted-burst: (mode - 4) consecutive EINTR answers
        let burst = if mode >= 6 { (mode - 4) as u32 } else { 0 };
        Sink { acc: Vec::new(), mode: mode.min(6), k, burst, fired: false, writes: 0, faults: 0 }
    }
}

impl Write for Sink {
    fn write(&mut self, buf: &[u8]) -> io::Result<usize> {
        self.writes += 1;
        let room = self.k.saturating_sub(self.acc.len());
        let n = match self.mode {
            1 => {
                // write-short(k): every write accepts at most k (>=1) bytes
                let n = buf.len().min(self.k.max(1));
                if n < buf.len() {
                    self.faults += 1;
                }
                n
            }
            2 => {
                // write-zero: after k bytes in total the sink accepts nothing
                let n = buf.len().min(room);
                if n < buf.len() {
                    self.faults += 1;
                }
                n
            }
            3 => {
                // write-interrupted: the write that would cross byte k fails once with EINTR
                if !self.fired && self.acc.len() + buf.len() > self.k {
                    self.fired = true;
                    self.faults += 1;
                    return Err(io::Error::new(io::ErrorKind::Interrupted, "simulated EINTR"));
                }
                buf.len()
            }
            6 => {
                // write-interrupted-burst: from byte k on, the next `burst` write calls fail with EINTR
                if self.burst > 0 && self.acc.len() + buf.len() > self.k {
                    self.burst -= 1;
                    self.faults += 1;
                    return Err(io::Error::new(io::ErrorKind::Interrupted, "simulated EINTR burst"));
                }
                buf.len()
            }
            4 => {
                // write-error(at byte k): partial acceptance up to k, then a hard error
                if self.acc.len() + buf.len() > self.k {
                    self.faults += 1;
                    if room == 0 {
                        return Err(io::Error::new(io::ErrorKind::Other, "simulated device error"));
                    }
                    room
                } else {
                    buf.len()
                }
            }
            _ => buf.len(),
        };
        self.acc.extend_from_slice(&buf[..n]);
        Ok(n)
    }
    fn flush(&mut self) -> io::Result<()> {
        Ok(())
    }
}

// ------------------------------------------------------------------ abstract values

fn supported(kind: &str) -> bool {
    matches!(kind, "client_hello" | "server_hello" | "server_hello_d18" | "client_key_exchange" | "client_key_exchange_dh" | "client_key_exchange_ecdh" | "finished" | "hello_request" | "ccs")
}

/// what the receiving parser is documented to deliver for a sent value
fn readback(m: &Item) -> Item {
    let mut r = m.clone();
    match m.kind.as_str() {
        "client_hello" | "server_hello_d18" => {
            if m.ob("ext").is_none() {
                r.set("ext", Val::Bytes(vec![]));
            }
        }
        "server_hello" => {
            if m.u("ver") == 0x0300 {
                r.set("ext", Val::None);
            } else if m.ob("ext").is_none() {
                r.set("ext", Val::Bytes(vec![]));
            }
        }
        "client_key_exchange_dh" => {
            let mut b = Vec::new();
            enc::vec16(&mut b, m.b("body"));
            r = Item::new("client_key_exchange").bytes("body", &b);
        }
        "client_key_exchange_ecdh" => {
            let mut b = Vec::new();
            enc::vec8(&mut b, m.b("body"));
            r = Item::new("client_key_exchange").bytes("body", &b);
        }
        _ => {}
    }
    r
}

/// reference encoding of what the serializer is documented to emit (absent extension block
/// is emitted as an empty one)
fn reference_bytes(m: &Item) -> Vec<u8> {
    let mut n = m.clone();
    match m.kind.as_str() {
        "client_hello" | "server_hello" | "server_hello_d18" => {
            if m.ob("ext").is_none() {
                n.set("ext", Val::Bytes(vec![]));
            }
            enc::tls_message(&n)
        }
        "client_key_exchange_dh" | "client_key_exchange_ecdh" => enc::tls_message(&{
            let mut r = readback(m);
            r.kind = "client_key_exchange".into();
            r
        }),
        _ => enc::tls_message(&n),
    }
}

fn gen_ser_msg(rng: &mut Rng, parsed_ok: bool) -> Item {
    let big = rng.chance(1, 40);
    match rng.below(16) {
        0..=3 => {
            let mut m = gen::handshake(rng, "client_hello", if big { 60000 } else { 200 });
            if big && rng.chance(1, 2) {
                let n = if rng.chance(1, 2) { *rng.pick(&[16383usize, 16384, 16385, 32766, 32767]) } else { rng.urange(8000, 32767) };
                m.set("ciphers", Val::Bytes(rng.bytes(n * 2)));
            }
            if big && rng.chance(1, 2) {
                let n = *rng.pick(&[65535usize, 65534, 40000]);
                m.set("ext", Val::Bytes(rng.bytes(n)));
            }
            if rng.chance(1, 8) {
                let n = *rng.pick(&[0usize, 127, 128, 129, 254, 255]);
                m.set("comp", Val::Bytes(rng.bytes(n)));
            }
            if rng.chance(1, 10) {
                let n = *rng.pick(&[0usize, 1, 127, 128, 129, 255, 256]);
                m.set("ciphers", Val::Bytes(rng.bytes(n * 2)));
            }
            if rng.chance(1, 10) {
                let n = *rng.pick(&[0usize, 1, 255, 256, 257]);
                m.set("ext", Val::Bytes(rng.bytes(n)));
            }
            m
        }
        4..=7 => {
            let kind = if rng.chance(1, 4) { "server_hello_d18" } else { "server_hello" };
            let mut m = gen::handshake(rng, kind, 200);
            // extension blocks at and beyond the sizes a small fixed buffer would hold
            if rng.chance(1, 6) && !(kind == "server_hello" && m.u("ver") == 0x0300) {
                let n = *rng.pick(&[255usize, 256, 257, 400, 470, 512, 1024, 4096, 16384, 65535]);
                let e = if rng.chance(1, 2) { rng.bytes(n) } else { let mut e = gen::extension_block(rng, n); e.truncate(n); e };
                m.set("ext", Val::Bytes(e));
            }
            if kind == "server_hello" && rng.chance(1, 12) {
                // session ids of every valid length (1..32; an empty one is the absent one)
                let n = *rng.pick(&[1usize, 2, 16, 31, 32]);
                m.set("sid", Val::Bytes(rng.bytes(n)));
            }
            m
        }
        8 => {
            let mut m = gen::handshake(rng, "client_key_exchange", 300);
            if rng.chance(1, 4) {
                let n = *rng.pick(&[0usize, 1, 255, 256, 65535, 65536, 70000]);
                m.set("body", Val::Bytes(rng.bytes(n)));
            }
            m
        }
        9 if !parsed_ok => {
            let n = if rng.chance(1, 3) { *rng.pick(&[0usize, 1, 127, 128, 255, 256, 257, 4096]) } else { rng.small_len(600) };
            Item::new("client_key_exchange_dh").bytes("body", &rng.bytes(n))
        }
        10 if !parsed_ok => {
            let n = if rng.chance(1, 3) { *rng.pick(&[0usize, 1, 127, 128, 254, 255]) } else { rng.small_len(255) };
            Item::new("client_key_exchange_ecdh").bytes("body", &rng.bytes(n))
        }
        9 | 10 | 11 => {
            let mut m = gen::handshake(rng, "finished", 80);
            if rng.chance(1, 5) {
                let n = *rng.pick(&[0usize, 12, 255, 256, 65535, 65536]);
                m.set("body", Val::Bytes(rng.bytes(n)));
            }
            m
        }
        12 => Item::new("hello_request"),
        13 => Item::new("ccs"),
        _ => {
            // unsupported values
            match rng.below(4) {
                0 => gen::alert(rng),
                1 => gen::appdata(rng, 40),
                2 => gen::heartbeat(rng, 40),
                _ => {
                    let k = *rng.pick(&["new_session_ticket", "end_of_early_data", "hello_retry_request", "certificate", "server_key_exchange", "certificate_request", "server_done", "certificate_verify", "certificate_status", "key_update", "next_protocol"]);
                    gen::handshake(rng, k, 80)
                }
            }
        }
    }
}

fn gen_ext(rng: &mut Rng) -> Item {
    match rng.below(5) {
        0 | 1 => {
            // ServerNameList<1..2^16-1>: at least one name
            let n = if rng.chance(1, 10) { rng.urange(5, 60) } else { rng.small_len(4).max(1) };
            let names: Vec<Vec<u8>> = (0..n)
                .map(|_| {
                    // HostName<1..2^16-1>: at least one byte
                    let l = if rng.chance(1, 6) { *rng.pick(&[1usize, 2, 255, 256, 257, 1000, 20000]) } else { rng.small_len(60).max(1) };
                    rng.bytes(l)
                })
                .collect();
            // the name list carries a u16 length: keep the whole list within it
            let mut names = names;
            while names.iter().map(|x| x.len() + 3).sum::<usize>() > 65000 {
                names.pop();
            }
            let types: Vec<u8> = (0..n).map(|_| if rng.chance(3, 4) { 0 } else { rng.u8() }).collect();
            Item::new("xsni").list("names", names).bytes("types", &types)
        }
        // (enum { 2^9(1), 2^10(2), 2^11(3), 2^12(4) }; named_group_list<2..2^16-1>: the wire limits)
        2 => Item::new("xmaxfrag").int("v", rng.range(1, 4)),
        3 => {
            let n = if rng.chance(1, 4) { *rng.pick(&[1usize, 2, 127, 128, 255, 256, 32766]) } else { rng.small_len(20).max(1) };
            Item::new("xgroups").bytes("groups", &rng.bytes(n * 2))
        }
        _ => {
            // every other variant of TlsExtension (none of them is supported today)
            let n = if rng.chance(1, 5) { *rng.pick(&[0usize, 1, 2, 255, 256]) } else { rng.urange(1, 24) };
            Item::new("xother").int("which", rng.below(30)).bytes("data", &rng.bytes(n)).int("v", rng.u32() as u64)
        }
    }
}

fn sink_plan(rng: &mut Rng, len_hint: usize) -> (u64, u64) {
    if rng.chance(1, 2) {
        return (0, 0);
    }
    let mode = match rng.below(7) {
        6 => rng.range(6, 14), // EINTR bursts of 2..10 consecutive calls
        m => m.max(1).min(5),
    };
    let k = match rng.below(4) {
        0 => rng.range(0, 8),                                  // around the first write-call boundaries (type, u24 length)
        1 => len_hint as u64,                                  // exactly full
        2 => (len_hint as u64).saturating_sub(rng.range(1, 3)), // just short
        _ => rng.range(0, len_hint as u64 + 4),
    };
    (mode, k)
}

pub fn generate(rng: &mut Rng, _prop: Prop) -> Scenario {
    let mut s = Scenario::new("ser");
    s.push(Item::new("knob"));
    let mut id = 0u64;
    for _ in 0..rng.urange(1, 4) {
        match rng.below(8) {
            0..=3 => {
                let parsed = rng.chance(1, 3);
                let m = gen_ser_msg(rng, parsed).int("_id", id);
                let len = reference_bytes(&m).len();
                let (mode, k) = sink_plan(rng, len);
                s.push(m);
                s.push(Item::new("op").str("what", "msg").int("m", id).int("via", rng.below(4)).int("sink", mode).int("k", k).int("parsed", parsed as u64));
                id += 1;
            }
            4 | 5 => {
                // a plaintext record of same-type serializable messages, within the record cap
                let ccs = rng.chance(1, 4);
                let mut ids = Vec::new();
                let mut total = 0usize;
                let unsupported_inside = rng.chance(1, 8);
                let nm = if rng.chance(1, 10) { rng.urange(5, 40) } else { rng.urange(1, 4) };
                // crowd: a long run of tiny (mostly empty-bodied) messages in one record - far more
                // than any small fixed bound; the same few values are referenced many times
                let crowd = !ccs && !unsupported_inside && rng.chance(1, 12);
                if crowd {
                    let mut tiny = Vec::new();
                    for _ in 0..rng.urange(1, 3) {
                        let m = match rng.below(4) {
                            0 | 1 => Item::new("hello_request"),
                            2 => Item::new("finished").bytes("body", &[]),
                            _ => {
                                let bl = rng.below(2) as usize;
                                Item::new("client_key_exchange").bytes("body", &rng.bytes(bl))
                            }
                        };
                        total = total.max(reference_bytes(&m).len());
                        s.push(m.int("_id", id));
                        tiny.push(id as u8);
                        id += 1;
                    }
                    let n = match rng.below(3) {
                        0 => *rng.pick(&[31usize, 32, 33, 34, 63, 64, 65, 127, 128, 129, 255, 256, 257]),
                        1 => rng.urange(35, 400),
                        _ => rng.urange(400, 3000),
                    };
                    let same = rng.chance(1, 2);
                    for _ in 0..n {
                        ids.push(if same { tiny[0] } else { *rng.pick(&tiny) });
                    }
                    total *= n;
                }
                for i in 0..(if crowd { 0 } else { nm }) {
                    let m = if ccs {
                        Item::new("ccs")
                    } else if unsupported_inside && i == 0 {
                        gen::handshake(rng, "server_done", 10)
                    } else {
                        loop {
                            let m = gen_ser_msg(rng, false);
                            if m.kind != "ccs" && (supported(&m.kind) || rng.chance(1, 10)) && enc::hs_type(&m.kind).is_some() | m.kind.starts_with("client_key_exchange") {
                                break m;
                            }
                        }
                    };
                    let l = reference_bytes(&m).len();
                    if total + l > 16640 {
                        continue;
                    }
                    total += l;
                    s.push(m.int("_id", id));
                    ids.push(id as u8);
                    id += 1;
                }
                if !ccs && !unsupported_inside && !crowd && rng.chance(1, 6) && total < 16000 {
                    // fill the record up to the top band: 2^14 - 1 .. 2^14 + 256 payload bytes
                    let want = *rng.pick(&[16383usize, 16384, 16385, 16500, 16639, 16640]);
                    if want > total + 4 {
                        let m = Item::new("finished").bytes("body", &rng.bytes(want - total - 4));
                        total = want;
                        s.push(m.int("_id", id));
                        ids.push(id as u8);
                        id += 1;
                    }
                }
                let (mode, k) = sink_plan(rng, total + 5);
                // the record header's own length field is not an input of the serializer: any value
                // there must be ignored in favour of the measured length
                let hl = if rng.chance(1, 2) { 0 } else { *rng.pick(&[1u64, 5, 16384, 65535]) };
                s.push(Item::new("op").str("what", "rec").int("type", if ccs { 20 } else { 22 }).int("ver", gen::version(rng) as u64).bytes("ms", &ids).int("via", rng.below(2)).int("sink", mode).int("k", k).int("hdrlen", hl).int("parsed", rng.chance(1, 3) as u64));
            }
            _ => {
                let n = if rng.chance(1, 10) { rng.urange(4, 30) } else { rng.urange(1, 3) };
                if rng.chance(1, 25) {
                    let (mode, k) = sink_plan(rng, 2);
                    s.push(Item::new("op").str("what", "exts").bytes("es", &[]).int("sink", mode).int("k", k).int("empty", 1));
                    continue;
                }
                let mut ids = Vec::new();
                for _ in 0..n {
                    s.push(gen_ext(rng).int("_id", id));
                    ids.push(id as u8);
                    id += 1;
                }
                let (mode, k) = sink_plan(rng, 30);
                if n == 1 && rng.chance(1, 2) {
                    s.push(Item::new("op").str("what", "ext").bytes("es", &ids).int("sink", mode).int("k", k));
                } else {
                    s.push(Item::new("op").str("what", "exts").bytes("es", &ids).int("sink", mode).int("k", k));
                }
            }
        }
    }
    s
}

// ------------------------------------------------------------------ Phase B

fn find<'a>(scn: &'a Scenario, id: u64) -> Option<&'a Item> {
    scn.items.iter().find(|i| i.kind != "op" && i.has("_id") && i.u("_id") == id)
}

fn build_ext<'a>(e: &'a Item) -> Option<TlsExtension<'a>> {
    Some(match e.kind.as_str() {
        "xsni" => TlsExtension::SNI(e.l("names").iter().enumerate().map(|(i, n)| (SNIType(e.b("types").get(i).copied().unwrap_or(0)), &n[..])).collect()),
        "xmaxfrag" => TlsExtension::MaxFragmentLength(e.u("v") as u8),
        "xgroups" => TlsExtension::EllipticCurves(e.b("groups").chunks(2).filter(|c| c.len() == 2).map(|c| NamedGroup(u16::from_be_bytes([c[0], c[1]]))).collect()),
        "xother" => {
            let d = e.b("data");
            let v = e.u("v");
            let pairs = || d.chunks(2).filter(|c| c.len() == 2).map(|c| u16::from_be_bytes([c[0], c[1]])).collect::<Vec<u16>>();
            match e.u("which") {
                0 => TlsExtension::StatusRequest(None),
                1 => TlsExtension::Heartbeat(v as u8),
                2 => TlsExtension::EncryptThenMac,
                3 => TlsExtension::ExtendedMasterSecret,
                4 => TlsExtension::SignatureAlgorithms(pairs()),
                5 => TlsExtension::RecordSizeLimit(v as u16),
                6 => TlsExtension::PskExchangeModes(d.to_vec()),
                7 => TlsExtension::Unknown(TlsExtensionType(0x1234), d),
                8 => TlsExtension::EcPointFormats(d),
                9 => TlsExtension::SessionTicket(d),
                10 => TlsExtension::KeyShare(d),
                11 => TlsExtension::KeyShareOld(d),
                12 => TlsExtension::PreSharedKey(d),
                13 => TlsExtension::EarlyData(if v & 1 == 0 { None } else { Some(v as u32) }),
                14 => TlsExtension::SupportedVersions(pairs().into_iter().map(TlsVersion).collect()),
                15 => TlsExtension::Cookie(d),
                16 => TlsExtension::ALPN(d.chunks(5).collect()),
                17 => TlsExtension::SignedCertificateTimestamp(if d.is_empty() { None } else { Some(d) }),
                18 => TlsExtension::Padding(d),
                19 => TlsExtension::PostHandshakeAuth,
                20 => TlsExtension::NextProtocolNegotiation,
                21 => TlsExtension::RenegotiationInfo(d),
                22 => TlsExtension::Grease(0x0a0a | ((v as u16 & 0xf) << 12) | ((v as u16 & 0xf) << 4), d),
                23 => TlsExtension::StatusRequest(Some((CertificateStatusType(1), d))),
                24 => TlsExtension::EncryptedServerName { ciphersuite: TlsCipherSuiteID(v as u16), group: NamedGroup((v >> 16) as u16), key_share: d, record_digest: &d[..d.len() / 2], encrypted_sni: d },
                25 => TlsExtension::Unknown(TlsExtensionType(v as u16 | 0x4000), d),
                26 => TlsExtension::OidFilters(Vec::new()),
                _ => TlsExtension::Unknown(TlsExtensionType(0x1234), &[]),
            }
        }
        _ => return None,
    })
}

fn ext_reference(e: &Item) -> Vec<u8> {
    let mut v = Vec::new();
    match e.kind.as_str() {
        "xsni" => {
            let mut list = Vec::new();
            for (i, n) in e.l("names").iter().enumerate() {
                list.push(e.b("types").get(i).copied().unwrap_or(0));
                enc::vec16(&mut list, n);
            }
            let mut body = Vec::new();
            enc::vec16(&mut body, &list);
            enc::put_u16(&mut v, 0);
            enc::vec16(&mut v, &body);
        }
        "xmaxfrag" => {
            enc::put_u16(&mut v, 1);
            enc::vec16(&mut v, &[e.u("v") as u8]);
        }
        "xgroups" => {
            let g = e.b("groups");
            let g = &g[..g.len() / 2 * 2];
            let mut body = Vec::new();
            enc::vec16(&mut body, g);
            enc::put_u16(&mut v, 10);
            enc::vec16(&mut v, &body);
        }
        _ => {}
    }
    v
}

/// address-free description of a TlsExtension for comparison
fn ext_desc(e: &TlsExtension) -> String {
    match e {
        TlsExtension::SNI(v) => format!("sni{:?}", v.iter().map(|(t, n)| (t.0, n.to_vec())).collect::<Vec<_>>()),
        TlsExtension::MaxFragmentLength(l) => format!("maxfrag({})", l),
        TlsExtension::EllipticCurves(g) => format!("groups{:?}", g.iter().map(|x| x.0).collect::<Vec<_>>()),
        other => format!("other:{:?}", other),
    }
}

enum SerOut {
    Ok { bytes: Vec<u8>, pos: u64 },
    Nyi,
    Err(String),
}

fn classify(e: GenError) -> SerOut {
    match e {
        GenError::NotYetImplemented => SerOut::Nyi,
        other => SerOut::Err(format!("{:?}", other).chars().take(60).collect()),
    }
}

pub fn execute(scn: &Scenario, ctx: &mut Ctx) {
    let mut nops = 0;
    for op in scn.items.iter().filter(|i| i.kind == "op") {
        nops += 1;
        let mode = op.u("sink");
        let k = op.u("k") as usize;
        match mode {
            1 => ctx.fault("write-short"),
            2 => ctx.fault("write-zero"),
            3 => ctx.fault("write-interrupted"),
            4 => ctx.fault("write-error"),
            5 => ctx.fault("sink-full"),
            6.. => ctx.fault("write-interrupted-burst"),
            _ => {}
        }
        match op.s("what") {
            "msg" => {
                if let Some(m) = find(scn, op.u("m")) {
                    op_msg(ctx, m, op.u("via"), mode, k, op.u("parsed") == 1);
                }
            }
            "rec" => op_rec(ctx, scn, op, mode, k),
            "ext" | "exts" => op_ext(ctx, scn, op, mode, k),
            _ => {}
        }
    }
    if nops >= 2 {
        ctx.nontrivial = true;
    }
}

/// Serialize through the simulated sink. Returns (result, bytes the sink accepted, fault count).
fn through_sink<'v>(ctx: &mut Ctx, entry: &'static str, mode: u64, k: usize, input_len: usize, which: Which<'v>) -> Option<(SerOut, Vec<u8>, u32)> {
    if mode != 0 {
        // the same serializer into an unlimited sink defines "the complete fault-free encoding"
        let clean = ctx.call(entry, input_len, 0, || which.run(Sink::new(0, 0)).ok().map(|(s, _)| s.acc));
        CLEAN.with(|c| *c.borrow_mut() = clean.flatten());
    }
    ctx.call(entry, input_len, 0, || {
        if mode == 5 {
            let mut buf = vec![0u8; k.min(1 << 20)];
            let cap = buf.len();
            let r = {
                let slice: &mut [u8] = &mut buf[..];
                match which.run(slice) {
                    Ok((rest, pos)) => Ok((cap - rest.len(), pos)),
                    Err(e) => Err(e),
                }
            };
            match r {
                Ok((used, pos)) => {
                    buf.truncate(used);
                    (SerOut::Ok { bytes: buf.clone(), pos }, buf, 0)
                }
                Err(e) => (classify(e), Vec::new(), 1),
            }
        } else {
            let mut sink = Sink::new(mode, k);
            let r = which.run(&mut sink).map(|(_, pos)| pos);
            let faults = sink.faults;
            match r {
                Ok(pos) => (SerOut::Ok { bytes: sink.acc.clone(), pos }, sink.acc, faults),
                Err(e) => (classify(e), sink.acc, faults),
            }
        }
    })
}

thread_local! {
    static CLEAN: std::cell::RefCell<Option<Vec<u8>>> = const { std::cell::RefCell::new(None) };
}

#[derive(Clone, Copy)]
enum Which<'v> {
    Message(&'v TlsMessage<'v>),
    Specific(&'v TlsMessage<'v>),
    Record(&'v TlsPlaintext<'v>),
    Ext(&'v TlsExtension<'v>),
    Exts(&'v [TlsExtension<'v>]),
}

impl<'v> Which<'v> {
    fn run<W: Write + 'v>(self, w: W) -> Result<(W, u64), GenError> {
        use cookie_factory::gen as cfgen;
        match self {
            Which::Message(m) => cfgen(gen_tls_message(m), w),
            Which::Specific(m) => match m {
                TlsMessage::Handshake(TlsMessageHandshake::ClientHello(c)) => cfgen(gen_tls_clienthello(c), w),
                TlsMessage::Handshake(TlsMessageHandshake::ServerHello(c)) => cfgen(gen_tls_serverhello(c), w),
                TlsMessage::Handshake(TlsMessageHandshake::ServerHelloV13Draft18(c)) => cfgen(gen_tls_serverhellodraft18(c), w),
                TlsMessage::Handshake(TlsMessageHandshake::ClientKeyExchange(c)) => cfgen(gen_tls_clientkeyexchange(c), w),
                TlsMessage::Handshake(TlsMessageHandshake::Finished(b)) => cfgen(gen_tls_finished(b), w),
                TlsMessage::Handshake(TlsMessageHandshake::HelloRequest) => cfgen(gen_tls_hellorequest(), w),
                TlsMessage::ChangeCipherSpec => cfgen(gen_tls_changecipherspec(), w),
                other => cfgen(gen_tls_message(other), w),
            },
            Which::Record(r) => cfgen(gen_tls_plaintext(r), w),
            Which::Ext(e) => cfgen(gen_tls_extension(e), w),
            Which::Exts(e) => cfgen(gen_tls_extensions(e), w),
        }
    }
}

fn sink_oracle(ctx: &mut Ctx, what: &str, mode: u64, k: usize, out: &SerOut, accepted: &[u8], reference: &[u8], is_supported: bool) -> bool {
    // returns true when the fault-free oracles should run on `out`
    match out {
        SerOut::Ok { bytes, pos } => {
            // (a kind outside the list the statement names may become supported one day: an Ok answer is
            // then held to the same byte / round-trip oracles as any supported value, which is what
            // "no bytes are presented as valid" asks for)
            let _ = (is_supported, bytes);
            if mode != 0 {
                ctx.count("oracle/ok_under_sink_fault_checked_complete", 1);
                // faulty sink (relaxed, narrow): the call may fail, but Ok => the sink holds the complete
                // fault-free encoding (= what the same serializer writes into an unlimited sink)
                let clean = CLEAN.with(|c| c.borrow_mut().take());
                let _ = reference;
                match clean {
                    Some(c) if accepted == &c[..] => {}
                    Some(c) => ctx.violate(Prop::C09, "sink/ok-with-missing-bytes", || {
                        format!("{}: sink fault mode {} k={}: serializer answered Ok(pos={}) but the sink holds {} bytes, the complete fault-free encoding has {} bytes (or contents differ)", what, mode, k, pos, accepted.len(), c.len())
                    }),
                    None => ctx.violate(Prop::C09, "sink/ok-with-missing-bytes", || format!("{}: Ok under sink fault mode {} although the fault-free serialization fails", what, mode)),
                }
                return false;
            }
            true
        }
        SerOut::Nyi => {
            if is_supported {
                ctx.violate(Prop::C09, "ser/failed", || format!("{}: supported value answered NotYetImplemented", what));
            }
            false
        }
        SerOut::Err(e) => {
            if mode == 0 {
                if is_supported {
                    ctx.violate(Prop::C09, "ser/failed", || format!("{}: serialization into an unlimited sink failed with {}", what, e));
                } else {
                    ctx.violate(Prop::C09, "ser/unsupported-not-nyi", || format!("{}: unsupported value answered {} instead of NotYetImplemented", what, e));
                }
            }
            false
        }
    }
}

fn op_msg(ctx: &mut Ctx, m: &Item, via: u64, mode: u64, k: usize, parsed: bool) {
    // the value: constructed by the stub, or obtained by parsing the reference encoding
    let wire: Vec<u8>;
    let pv: Vec<TlsMessage>;
    let built: Option<TlsMessage>;
    let bb = val::build_bytes(m);
    let mut src = m.clone();
    let value: &TlsMessage = if parsed {
        let payload = enc::tls_message(m);
        wire = enc::tls_record(enc::content_type(&m.kind), 0x0303, payload.len() as u64, &payload);
        match ctx.call("parse_tls_plaintext", wire.len(), 0, || parse_tls_plaintext(&wire)) {
            Some(Ok((_, p))) if p.msg.len() == 1 => {
                pv = p.msg;
                src = val::msg_to_item(&pv[0]);
                ctx.fault("value-from-parser");
                &pv[0]
            }
            _ => return,
        }
    } else {
        built = val::build_message(m, &bb);
        match &built {
            Some(b) => b,
            None => return,
        }
    };
    let is_sup = supported(&src.kind);
    let reference = reference_bytes(&src);
    // via 3 = Serialize::serialize of the TlsMessageHandshake itself (falls back to 1 for non-handshake values)
    let hs_direct = via == 3 && matches!(value, TlsMessage::Handshake(_));
    let via = if via == 3 { 1 } else { via };
    let what = format!("{} via {}", src.kind, if hs_direct { "TlsMessageHandshake::serialize" } else { ["gen_tls_message", "TlsMessage::serialize", "specific gen_tls_* function"][via as usize % 3] });
    ctx.cell("ser", (kind_index(&src.kind) * 3 + (via % 3) as u32) * 6 + mode.min(5) as u32);
    let (out, accepted) = if via % 3 == 1 {
        // Serialize::serialize writes into its own Vec (no sink seam)
        let r = ctx.call("Serialize::serialize", reference.len(), 0, || {
            let r = match (hs_direct, value) {
                (true, TlsMessage::Handshake(h)) => h.serialize(),
                _ => value.serialize(),
            };
            match r {
                Ok(v) => SerOut::Ok { pos: v.len() as u64, bytes: v },
                Err(e) => classify(e),
            }
        });
        match r {
            Some(o) => {
                let acc = if let SerOut::Ok { bytes, .. } = &o { bytes.clone() } else { vec![] };
                (o, acc)
            }
            None => return,
        }
    } else {
        let which = if via % 3 == 2 { Which::Specific(value) } else { Which::Message(value) };
        match through_sink(ctx, "gen_tls_message", if via % 3 == 1 { 0 } else { mode }, k, reference.len(), which) {
            Some((o, acc, f)) => {
                if f > 0 {
                    ctx.fault("sink-fault-fired");
                }
                (o, acc)
            }
            None => return,
        }
    };
    let eff_mode = if via % 3 == 1 { 0 } else { mode };
    ctx.log(9, matches!(out, SerOut::Ok { .. }) as u64, accepted.len() as u64);
    ctx.trace(9 + (kind_index(&src.kind) as u64) * 16, (matches!(out, SerOut::Ok { .. }) as u64) | eff_mode << 1 | (via % 3) << 4, accepted.len());
    // the specific gen_tls_* functions exist only for supported kinds
    if !sink_oracle(ctx, &what, eff_mode, k, &out, &accepted, &reference, is_sup) {
        return;
    }
    let (bytes, pos) = match out {
        SerOut::Ok { bytes, pos } => (bytes, pos),
        _ => return,
    };
    fault_free_message_oracles(ctx, &what, &src, &bytes, pos, &reference, is_sup);
}

fn kind_index(k: &str) -> u32 {
    const K: &[&str] = &["client_hello", "server_hello", "server_hello_d18", "client_key_exchange", "client_key_exchange_dh", "client_key_exchange_ecdh", "finished", "hello_request", "ccs"];
    K.iter().position(|x| *x == k).unwrap_or(9) as u32
}

fn fault_free_message_oracles(ctx: &mut Ctx, what: &str, src: &Item, bytes: &[u8], pos: u64, reference: &[u8], listed: bool) {
    // `listed`: one of the kinds the statement names. A kind outside that list that answers Ok (a
    // serializer added later) is held to "parses back to the same value" only: its wire form may
    // hold parts no value field carries (heartbeat padding), so neither the reference bytes nor
    // full consumption nor a byte-identical re-serialization can be demanded of it
    ctx.count("oracle/message_roundtrips", 1);
    let _ = pos;
    // SSLv3 has no extension block: an absent one may be emitted as `00 00` (today) or not at all
    let sslv3_bare = src.kind == "server_hello" && src.u("ver") == 0x0300 && src.ob("ext").is_none() && reference.len() >= 6 && bytes.len() + 2 == reference.len() && {
        let mut alt = reference[..reference.len() - 2].to_vec();
        let l = alt.len() - 4;
        alt[1] = (l >> 16) as u8;
        alt[2] = (l >> 8) as u8;
        alt[3] = l as u8;
        alt == bytes
    };
    if listed && bytes != reference && !sslv3_bare {
        let i = bytes.iter().zip(reference.iter()).position(|(a, b)| a != b).unwrap_or(bytes.len().min(reference.len()));
        ctx.violate(Prop::C09, format!("ser/bytes-differ/{}", src.kind), || {
            format!("{}: serializer emitted {} bytes, the reference encoder {} bytes; first difference at offset {} (got {:02x?}, expected {:02x?})", what, bytes.len(), reference.len(), i, bytes.get(i), reference.get(i))
        });
    }
    // delivered to the receiving node
    let parsed = ctx.call("parse message", bytes.len(), 0, || {
        let r = match src.kind.as_str() {
            "ccs" => parse_tls_message_changecipherspec(bytes),
            "alert" => parse_tls_message_alert(bytes),
            "appdata" => parse_tls_message_applicationdata(bytes),
            "heartbeat" => parse_tls_message_heartbeat(bytes, bytes.len() as u16).and_then(|(rem, mut v)| match v.pop() {
                Some(m) => Ok((rem, m)),
                None => Err(tls_parser::Err::Error(tls_parser::nom::error::Error::new(bytes, tls_parser::nom::error::ErrorKind::Eof))),
            }),
            _ => parse_tls_message_handshake(bytes),
        };
        match r {
            Ok((rem, m)) => {
                let again = m.serialize().ok();
                Ok((rem.len(), val::msg_to_item(&m), again))
            }
            Err(e) => Err(format!("{:?}", e).chars().take(80).collect::<String>()),
        }
    });
    match parsed {
        Some(Ok((rem, item, again))) => {
            if rem != 0 && listed {
                ctx.violate(Prop::C09, "ser/not-consumed", || format!("{}: parsing the {} produced bytes left {} bytes unconsumed", what, bytes.len(), rem));
            }
            let want = readback(src);
            let sslv3_alt = src.kind == "server_hello" && src.u("ver") == 0x0300 && {
                let mut alt = want.clone();
                alt.set("ext", Val::Bytes(vec![]));
                val::same(&alt, &item)
            };
            if !val::same(&want, &item) && !sslv3_alt {
                ctx.violate(Prop::C09, format!("ser/roundtrip-value/{}", src.kind), || format!("{}: {}", what, val::diff(&want, &item)));
            }
            match again {
                _ if !listed => {}
                Some(b) if b == bytes => {}
                Some(b) => ctx.violate(Prop::C09, "ser/reserialize", || format!("{}: re-serializing the parsed value gives {} bytes, the first serialization {} bytes (or contents differ)", what, b.len(), bytes.len())),
                None => ctx.violate(Prop::C09, "ser/reserialize", || format!("{}: re-serializing the parsed value failed", what)),
            }
        }
        Some(Err(e)) => ctx.violate(Prop::C09, format!("ser/roundtrip-parse/{}", src.kind), || format!("{}: the {} produced bytes do not parse back: {}", what, bytes.len(), e)),
        None => {}
    }
}

fn op_rec(ctx: &mut Ctx, scn: &Scenario, op: &Item, mode: u64, k: usize) {
    let items: Vec<&Item> = op.b("ms").iter().filter_map(|id| find(scn, *id as u64)).collect();
    if items.is_empty() {
        return;
    }
    let bbs: Vec<Vec<u8>> = items.iter().map(|m| val::build_bytes(m)).collect();
    let msgs: Vec<TlsMessage> = items.iter().zip(bbs.iter()).filter_map(|(m, b)| val::build_message(m, b)).collect();
    if msgs.len() != items.len() {
        return;
    }
    let ctype = op.u("type") as u8;
    let ver = op.u("ver") as u16;
    let mut rec = val::mk_plaintext(val::mk_header(ctype, ver, op.u("hdrlen") as u16), msgs);
    // optionally the value obtained by parsing the reference encoding of the same record
    let wire0: Vec<u8>;
    if op.u("parsed") == 1 && items.iter().all(|m| supported(&m.kind) && !m.kind.starts_with("client_key_exchange_")) {
        let mut pl = Vec::new();
        for m in &items {
            pl.extend(enc::tls_message(m));
        }
        wire0 = enc::tls_record(ctype, ver, pl.len() as u64, &pl);
        if let Some(Ok((_, p))) = ctx.call("parse_tls_plaintext", wire0.len(), 0, || parse_tls_plaintext(&wire0)) {
            if p.msg.len() == items.len() {
                ctx.fault("value-from-parser");
                rec = p;
            }
        }
    }
    let all_sup = items.iter().all(|m| supported(&m.kind));
    let mut payload = Vec::new();
    for m in &items {
        payload.extend(reference_bytes(m));
    }
    let reference = enc::tls_record(ctype, ver, payload.len() as u64, &payload);
    let via = op.u("via") % 2;
    let what = format!("record(type {}, {} msgs) via {}", ctype, items.len(), ["gen_tls_plaintext", "Serialize::serialize"][via as usize]);
    if items.len() > 1 {
        ctx.fault("coalesce");
    }
    let (out, accepted, eff_mode) = if via == 1 {
        match ctx.call("TlsPlaintext::serialize", reference.len(), 0, || match rec.serialize() {
            Ok(v) => SerOut::Ok { pos: v.len() as u64, bytes: v },
            Err(e) => classify(e),
        }) {
            Some(o) => {
                let acc = if let SerOut::Ok { bytes, .. } = &o { bytes.clone() } else { vec![] };
                (o, acc, 0)
            }
            None => return,
        }
    } else {
        match through_sink(ctx, "gen_tls_plaintext", mode, k, reference.len(), Which::Record(&rec)) {
            Some((o, acc, f)) => {
                if f > 0 {
                    ctx.fault("sink-fault-fired");
                }
                (o, acc, mode)
            }
            None => return,
        }
    };
    ctx.log(10, matches!(out, SerOut::Ok { .. }) as u64, accepted.len() as u64);
    ctx.trace(10, (matches!(out, SerOut::Ok { .. }) as u64) | eff_mode << 1 | (items.len() as u64) << 4, accepted.len());
    ctx.cell("ser", 10 * 18 + (ctype == 20) as u32 * 6 + eff_mode.min(5) as u32);
    if payload.len() > 16384 && !matches!(out, SerOut::Ok { .. }) {
        // a TLSPlaintext fragment is at most 2^14 bytes on the wire (the 2^14+256 of C02 is the read
        // cap): above it the serializer may refuse; if it answers Ok the oracles below apply
        ctx.count("oracle/record_above_2p14_refused", 1);
        return;
    }
    if !sink_oracle(ctx, &what, eff_mode, k, &out, &accepted, &reference, all_sup) {
        return;
    }
    let (bytes, pos) = match out {
        SerOut::Ok { bytes, pos } => (bytes, pos),
        _ => return,
    };
    let _ = pos;
    let has_sslv3_bare = items.iter().any(|m| m.kind == "server_hello" && m.u("ver") == 0x0300 && m.ob("ext").is_none());
    if all_sup && bytes != reference && !has_sslv3_bare {
        let i = bytes.iter().zip(reference.iter()).position(|(a, b)| a != b).unwrap_or(bytes.len().min(reference.len()));
        ctx.violate(Prop::C09, "ser/bytes-differ/record", || format!("{}: emitted {} bytes, reference {} bytes; first difference at offset {} (got {:02x?}, expected {:02x?})", what, bytes.len(), reference.len(), i, bytes.get(i), reference.get(i)));
    }
    let want: Vec<Item> = items.iter().map(|m| val::canon(&readback(m))).collect();
    let parsed = ctx.call("parse_tls_plaintext", bytes.len(), 0, || match parse_tls_plaintext(&bytes) {
        Ok((rem, r)) => {
            let again = r.serialize().ok();
            Ok((rem.len(), r.hdr.record_type.0, r.hdr.version.0, r.hdr.len, r.msg.iter().map(|m| val::canon(&val::msg_to_item(m))).collect::<Vec<_>>(), again))
        }
        Err(e) => Err(format!("{:?}", e).chars().take(80).collect::<String>()),
    });
    match parsed {
        Some(Ok((rem, t, v, l, got, again))) => {
            if rem != 0 {
                ctx.violate(Prop::C09, "ser/not-consumed", || format!("{}: {} bytes left unconsumed", what, rem));
            }
            let msgs_ok = got.len() == want.len()
                && got.iter().zip(want.iter()).all(|(g, w)| {
                    g == w || (w.kind == "server_hello" && w.u("ver") == 0x0300 && {
                        let mut alt = w.clone();
                        alt.set("ext", Val::Bytes(vec![]));
                        val::canon(&alt) == *g
                    })
                });
            if (t, v) != (ctype, ver) || (l as usize != payload.len() && !has_sslv3_bare && all_sup) || l as usize != bytes.len().saturating_sub(5) || !msgs_ok {
                ctx.violate(Prop::C09, "ser/roundtrip-value/record", || format!("{}: parsed back as type {} version {:#06x} len {} with {} msgs; sent type {} version {:#06x} len {} with {} msgs (or message values differ)", what, t, v, l, got.len(), ctype, ver, payload.len(), want.len()));
            }
            if all_sup && again.as_deref() != Some(&bytes[..]) {
                ctx.violate(Prop::C09, "ser/reserialize", || format!("{}: re-serializing the parsed record does not reproduce the same bytes", what));
            }
        }
        Some(Err(e)) => ctx.violate(Prop::C09, "ser/roundtrip-parse/record", || format!("{}: the {} produced bytes do not parse back: {}", what, bytes.len(), e)),
        None => {}
    }
}

fn op_ext(ctx: &mut Ctx, scn: &Scenario, op: &Item, mode: u64, k: usize) {
    let items: Vec<&Item> = op.b("es").iter().filter_map(|id| find(scn, *id as u64)).collect();
    // (an empty list is a value of its own for gen_tls_extensions: an empty block)
    if items.is_empty() && !(op.s("what") == "exts" && op.u("empty") == 1) {
        return;
    }
    let exts: Vec<TlsExtension> = items.iter().filter_map(|e| build_ext(e)).collect();
    if exts.len() != items.len() {
        return;
    }
    let single = op.s("what") == "ext" && exts.len() == 1;
    let all_sup = items.iter().all(|e| e.kind != "xother");
    let mut body = Vec::new();
    for e in &items {
        body.extend(ext_reference(e));
    }
    let reference = if single {
        body.clone()
    } else {
        let mut v = Vec::new();
        enc::vec16(&mut v, &body);
        v
    };
    let what = format!("{} extension(s) via {}", exts.len(), if single { "gen_tls_extension" } else { "gen_tls_extensions" });
    let which = if single { Which::Ext(&exts[0]) } else { Which::Exts(&exts) };
    let (out, accepted) = match through_sink(ctx, "gen_tls_extensions", mode, k, reference.len(), which) {
        Some((o, acc, f)) => {
            if f > 0 {
                ctx.fault("sink-fault-fired");
            }
            (o, acc)
        }
        None => return,
    };
    ctx.log(11, matches!(out, SerOut::Ok { .. }) as u64, accepted.len() as u64);
    ctx.trace(11, (matches!(out, SerOut::Ok { .. }) as u64) | mode << 1 | (items.len() as u64) << 4, accepted.len());
    ctx.cell("ser", 11 * 18 + single as u32 * 6 + mode.min(5) as u32);
    if !sink_oracle(ctx, &what, mode, k, &out, &accepted, &reference, all_sup) {
        return;
    }
    let bytes = match out {
        SerOut::Ok { bytes, .. } => bytes,
        _ => return,
    };
    if all_sup && bytes != reference {
        ctx.violate(Prop::C09, "ser/bytes-differ/extension", || format!("{}: emitted {} bytes, reference {} bytes (or contents differ)", what, bytes.len(), reference.len()));
        return;
    }
    let want: Vec<String> = exts.iter().map(ext_desc).collect();
    let inner = if single { &bytes[..] } else { &bytes[2.min(bytes.len())..] };
    let got = ctx.call("parse_tls_extensions", inner.len(), 0, || match parse_tls_extensions(inner) {
        Ok((rem, v)) => Ok((rem.len(), v.iter().map(ext_desc).collect::<Vec<_>>())),
        Err(e) => Err(format!("{:?}", e).chars().take(80).collect::<String>()),
    });
    match got {
        Some(Ok((rem, got))) => {
            if rem != 0 || got != want {
                ctx.violate(Prop::C09, "ser/roundtrip-value/extension", || format!("{}: parsed back {:?} (+{} unconsumed bytes), sent {:?}", what, val::clip(&format!("{:?}", got)), rem, val::clip(&format!("{:?}", want))));
            }
        }
        Some(Err(e)) => ctx.violate(Prop::C09, "ser/roundtrip-parse/extension", || format!("{}: produced bytes do not parse back: {}", what, e)),
        None => {}
    }
}

pub fn cell_name(id: u32) -> String {
    format!("ser#{}", id)
}
