//! The "confused monitor": every public parse function of the crate, callable on any buffer.
//! Each entry parses, then formats whatever came back with `{:?}` (and `{}` where implemented);
//! the returned number is only there so nothing is optimised away.

use tls_parser::*;

pub type Entry = (&'static str, fn(&[u8], usize) -> usize);

fn dbg<T: std::fmt::Debug>(r: &T) -> usize {
    // formatting into a String is harness-side allocation: not charged to the parse call
    crate::guard::unmetered(|| format!("{:?}", r).len())
}

// Display of a value if (and only if) its type implements it: autoref specialisation, so the
// harness keeps compiling whether or not a newtype has (or later gains) a hand-written Display
pub struct Probe<'a, T>(pub &'a T);
pub trait ViaDisplay {
    fn probe(&self) -> usize;
}
impl<'a, T: std::fmt::Display> ViaDisplay for Probe<'a, T> {
    fn probe(&self) -> usize {
        format!("{}", self.0).len()
    }
}
pub trait ViaNothing {
    fn probe(&self) -> usize {
        0
    }
}
impl<'a, T> ViaNothing for &Probe<'a, T> {}
macro_rules! disp {
    ($e:expr) => {{
        #[allow(unused_imports)]
        use crate::allparsers::{ViaDisplay, ViaNothing};
        (&crate::allparsers::Probe(&$e)).probe()
    }};
}

/// `{}` / `{:?}` of every registry newtype nested in a returned message
fn nested_message(m: &TlsMessage) -> usize {
    crate::guard::unmetered(|| match m {
        TlsMessage::Handshake(h) => match h {
            TlsMessageHandshake::ClientHello(c) => disp!(c.version) + c.comp.iter().take(300).map(|x| disp!(*x) + format!("{:?}", x).len()).sum::<usize>() + c.ciphers.iter().take(8).map(|x| disp!(*x)).sum::<usize>(),
            TlsMessageHandshake::ServerHello(c) => disp!(c.version) + disp!(c.compression) + disp!(c.cipher) + format!("{:?}", c.compression).len(),
            TlsMessageHandshake::ServerHelloV13Draft18(c) => disp!(c.version) + disp!(c.cipher),
            TlsMessageHandshake::HelloRetryRequest(c) => disp!(c.version) + disp!(c.cipher),
            _ => 0,
        },
        TlsMessage::Alert(a) => disp!(a.severity) + disp!(a.code),
        TlsMessage::Heartbeat(h) => disp!(h.heartbeat_type) + format!("{:?}", h.heartbeat_type).len(),
        _ => 0,
    })
}

fn nested_dtls(m: &DTLSMessage) -> usize {
    crate::guard::unmetered(|| match m {
        DTLSMessage::Handshake(h) => {
            disp!(h.msg_type)
                + format!("{:?}", h.msg_type).len()
                + match &h.body {
                    DTLSMessageHandshakeBody::ClientHello(c) => disp!(c.version) + c.comp.iter().take(300).map(|x| disp!(*x)).sum::<usize>(),
                    DTLSMessageHandshakeBody::ServerHello(c) => disp!(c.version) + disp!(c.compression) + disp!(c.cipher),
                    DTLSMessageHandshakeBody::HelloVerifyRequest(v) => disp!(v.server_version),
                    _ => 0,
                }
        }
        DTLSMessage::Alert(a) => disp!(a.severity) + disp!(a.code),
        DTLSMessage::Heartbeat(h) => disp!(h.heartbeat_type),
        _ => 0,
    })
}

fn nested_ext(e: &TlsExtension) -> usize {
    crate::guard::unmetered(|| match e {
        TlsExtension::SNI(v) => v.iter().take(300).map(|(t, _)| disp!(*t)).sum(),
        TlsExtension::StatusRequest(Some((t, _))) => disp!(*t) + format!("{:?}", t).len(),
        TlsExtension::EllipticCurves(v) => v.iter().take(300).map(|g| disp!(*g)).sum(),
        TlsExtension::SupportedVersions(v) => v.iter().take(300).map(|g| disp!(*g)).sum(),
        TlsExtension::EncryptedServerName { ciphersuite, group, .. } => disp!(*ciphersuite) + disp!(*group),
        TlsExtension::Unknown(t, _) => disp!(*t),
        _ => 0,
    })
}

macro_rules! simple {
    ($name:ident) => {
        (stringify!($name), |i: &[u8], _n: usize| dbg(&$name(i)))
    };
}
macro_rules! with_len {
    ($name:ident) => {
        (stringify!($name), |i: &[u8], n: usize| dbg(&$name(i, n)))
    };
}

#[allow(deprecated)]
pub const ALL: &[Entry] = &[
    // certificate transparency
    ("parse_ct_signed_certificate_timestamp", |i, _| match parse_ct_signed_certificate_timestamp(i) {
        Ok((_, s)) => crate::guard::unmetered(|| format!("{:?} {} {:?}", s, s.version, s.signature.alg.as_ref().map(|a| format!("{} {} {}", a, a.hash, a.sign))).len()),
        Err(e) => dbg(&e),
    }),
    simple!(parse_ct_signed_certificate_timestamp_list),
    // dtls
    ("parse_dtls_record_header", |i, _| match parse_dtls_record_header(i) {
        Ok((_, h)) => format!("{:?} {} {}", h, h.content_type, h.version).len(),
        Err(e) => dbg(&e),
    }),
    ("parse_dtls_message_handshake", |i, _| match parse_dtls_message_handshake(i) {
        Ok((_, m)) => dbg(&m) + nested_dtls(&m),
        Err(e) => dbg(&e),
    }),
    simple!(parse_dtls_message_changecipherspec),
    simple!(parse_dtls_message_alert),
    ("parse_dtls_record_with_header", |i, n| {
        let mut t = 0;
        for ct in [20u8, 21, 22, 23, (n & 0xff) as u8] {
            let hdr = crate::val::mk_dtls_header(ct, 0xfefd, n as u16);
            t += dbg(&parse_dtls_record_with_header(i, &hdr));
        }
        t
    }),
    ("parse_dtls_plaintext_record", |i, _| match parse_dtls_plaintext_record(i) {
        Ok((_, r)) => dbg(&r) + r.messages.iter().take(50).map(nested_dtls).sum::<usize>() + disp!(r.header.content_type) + disp!(r.header.version),
        Err(e) => dbg(&e),
    }),
    simple!(parse_dtls_plaintext_records),
    // dh / ec
    simple!(parse_dh_params),
    ("parse_named_groups", |i, _| match parse_named_groups(i) {
        Ok((_, g)) => crate::guard::unmetered(|| g.iter().map(|x| format!("{} {:?} {:?}", x, x, x.key_bits()).len()).sum::<usize>()),
        Err(e) => dbg(&e),
    }),
    ("parse_ec_parameters", |i, _| match parse_ec_parameters(i) {
        Ok((_, p)) => crate::guard::unmetered(|| format!("{:?} {}", p, p.curve_type).len()),
        Err(e) => dbg(&e),
    }),
    simple!(parse_ecdh_params),
    // extensions
    ("parse_tls_extension_sni_hostname", |i, _| match parse_tls_extension_sni_hostname(i) {
        Ok((_, (t, n))) => crate::guard::unmetered(|| format!("{} {:?} {}", t, t, n.len()).len()),
        Err(e) => dbg(&e),
    }),
    simple!(parse_tls_extension_sni_content),
    simple!(parse_tls_extension_sni),
    simple!(parse_tls_extension_max_fragment_length_content),
    simple!(parse_tls_extension_max_fragment_length),
    simple!(parse_tls_extension_status_request),
    simple!(parse_tls_extension_elliptic_curves_content),
    simple!(parse_tls_extension_elliptic_curves),
    simple!(parse_tls_extension_ec_point_formats_content),
    simple!(parse_tls_extension_ec_point_formats),
    simple!(parse_tls_extension_signature_algorithms_content),
    simple!(parse_tls_extension_signature_algorithms),
    simple!(parse_tls_extension_heartbeat_content),
    simple!(parse_tls_extension_heartbeat),
    simple!(parse_tls_extension_alpn_content),
    simple!(parse_tls_extension_signed_certificate_timestamp_content),
    simple!(parse_tls_extension_encrypt_then_mac),
    simple!(parse_tls_extension_extended_master_secret),
    simple!(parse_tls_extension_session_ticket),
    simple!(parse_tls_extension_key_share),
    simple!(parse_tls_extension_pre_shared_key),
    simple!(parse_tls_extension_early_data),
    simple!(parse_tls_extension_supported_versions),
    simple!(parse_tls_extension_cookie),
    simple!(parse_tls_extension_psk_key_exchange_modes_content),
    simple!(parse_tls_extension_psk_key_exchange_modes),
    simple!(parse_tls_extension_renegotiation_info_content),
    simple!(parse_tls_extension_encrypted_server_name),
    simple!(parse_tls_extension_unknown),
    ("parse_tls_client_hello_extension", |i, _| match parse_tls_client_hello_extension(i) {
        Ok((_, e)) => format!("{:?} {}", e, TlsExtensionType::from(&e)).len(),
        Err(e) => dbg(&e),
    }),
    ("parse_tls_server_hello_extension", |i, _| match parse_tls_server_hello_extension(i) {
        Ok((_, e)) => format!("{:?} {}", e, TlsExtensionType::from(&e)).len(),
        Err(e) => dbg(&e),
    }),
    ("parse_tls_extension", |i, _| match parse_tls_extension(i) {
        Ok((_, e)) => format!("{:?} {}", e, TlsExtensionType::from(&e)).len() + nested_ext(&e),
        Err(e) => dbg(&e),
    }),
    simple!(parse_tls_client_hello_extensions),
    simple!(parse_tls_server_hello_extensions),
    simple!(parse_tls_extensions),
    // handshake
    simple!(parse_tls_handshake_msg_hello_request),
    ("parse_tls_handshake_client_hello", |i, _| match parse_tls_handshake_client_hello(i) {
        Ok((_, c)) => {
            // registry lookups for every advertised suite, but Debug of only a few of them: the heap
            // meter is about the crate's allocations, not about how much text the harness prints
            let suites = c.cipher_suites();
            let mut t = format!("{:?} {} {:?}", c, c.version, &suites[..suites.len().min(3)]).len() + c.get_ciphers().len();
            t += c.rand_time() as usize & 1;
            t += c.rand_bytes().len();
            if let Some(e) = c.ext {
                t += dbg(&parse_tls_client_hello_extensions(e));
            }
            t
        }
        Err(e) => dbg(&e),
    }),
    simple!(parse_tls_handshake_msg_client_hello),
    ("parse_tls_handshake_server_hello", |i, _| match parse_tls_handshake_server_hello(i) {
        Ok((_, c)) => {
            let mut t = format!("{:?} {} {} {:?}", c, c.version, c.cipher, c.get_cipher()).len();
            if let Some(e) = c.ext {
                t += dbg(&parse_tls_server_hello_extensions(e));
            }
            t
        }
        Err(e) => dbg(&e),
    }),
    simple!(parse_tls_handshake_msg_server_hello),
    with_len!(parse_tls_handshake_msg_newsessionticket),
    simple!(parse_tls_handshake_msg_hello_retry_request),
    simple!(parse_tls_handshake_msg_certificate),
    with_len!(parse_tls_handshake_msg_serverkeyexchange),
    with_len!(parse_tls_handshake_msg_serverdone),
    with_len!(parse_tls_handshake_msg_certificateverify),
    with_len!(parse_tls_handshake_msg_clientkeyexchange),
    simple!(parse_tls_handshake_certificaterequest),
    simple!(parse_tls_handshake_msg_certificaterequest),
    with_len!(parse_tls_handshake_msg_finished),
    simple!(parse_tls_handshake_certificatestatus),
    simple!(parse_tls_handshake_msg_certificatestatus),
    simple!(parse_tls_handshake_next_protocol),
    simple!(parse_tls_handshake_msg_next_protocol),
    simple!(parse_tls_handshake_msg_key_update),
    ("parse_tls_message_handshake", |i, _| match parse_tls_message_handshake(i) {
        Ok((_, m)) => dbg(&m) + nested_message(&m),
        Err(e) => dbg(&e),
    }),
    // messages
    simple!(parse_tls_message_changecipherspec),
    ("parse_tls_message_alert", |i, _| match parse_tls_message_alert(i) {
        Ok((_, TlsMessage::Alert(a))) => format!("{:?} {} {}", a, a.severity, a.code).len(),
        other => dbg(&other),
    }),
    simple!(parse_tls_message_applicationdata),
    ("parse_tls_message_heartbeat", |i, n| dbg(&parse_tls_message_heartbeat(i, n as u16))),
    // records
    ("parse_tls_record_header", |i, _| match parse_tls_record_header(i) {
        Ok((_, h)) => format!("{:?} {} {}", h, h.record_type, h.version).len(),
        Err(e) => dbg(&e),
    }),
    ("parse_tls_record_with_header", |i, n| {
        let mut t = 0;
        for ct in [20u8, 21, 22, 23, 24, (n & 0xff) as u8] {
            for len in [i.len() as u16, n as u16] {
                let hdr = crate::val::mk_header(ct, 0x0303, len);
                t += dbg(&parse_tls_record_with_header(i, &hdr));
            }
        }
        t
    }),
    ("parse_tls_plaintext", |i, _| match parse_tls_plaintext(i) {
        Ok((_, r)) => dbg(&r) + r.msg.iter().take(50).map(nested_message).sum::<usize>() + disp!(r.hdr.record_type) + disp!(r.hdr.version),
        Err(e) => dbg(&e),
    }),
    simple!(parse_tls_encrypted),
    simple!(parse_tls_raw_record),
    simple!(tls_parser),
    simple!(tls_parser_many),
    // signatures
    simple!(parse_digitally_signed_old),
    ("parse_digitally_signed", |i, _| match parse_digitally_signed(i) {
        Ok((_, d)) => crate::guard::unmetered(|| format!("{:?} {:?}", d, d.alg.as_ref().map(|a| format!("{} {} {}", a, a.hash, a.sign))).len()),
        Err(e) => dbg(&e),
    }),
    ("parse_content_and_signature", |i, _| {
        let mut t = 0;
        for ext in [false, true] {
            t += dbg(&parse_content_and_signature(i, parse_dh_params, ext));
            t += dbg(&parse_content_and_signature(i, parse_ecdh_params, ext));
        }
        t
    }),
];
