//! World `defrag`: the record layer feeding one `TlsRecordsParser` (S2), as an explicit
//! operation history {rec, nocopy, reset}. Oracles: call-by-call refinement against the
//! executable accumulate-then-parse model (C07), history-level split-group oracle (C07),
//! slice provenance (C06 item 4), no-panic / heap meter (C01).

use crate::core::{Ctx, Prop};
use crate::enc;
use crate::gen;
use crate::item::{Item, Scenario};
use crate::prng::{mix_bytes, Rng};
use crate::res::{split, Class, Outcome};
use crate::val;
use crate::visit::{self, Slices};
use tls_parser::nom::error::ErrorKind;
use tls_parser::*;

pub const MAX_DATA: usize = 10 * 1024 * 1024;

// ---------------------------------------------------------------- Phase A

fn cut_points(rng: &mut Rng, len: usize, k: usize) -> Vec<usize> {
    // k fragments => k-1 cuts, anywhere in 0..=len (duplicates give empty fragments)
    let mut cuts: Vec<usize> = (0..k.saturating_sub(1))
        .map(|_| match rng.below(8) {
            0 => rng.urange(0, len.min(4)), // inside the 4-byte handshake header
            1 => 0,                          // leading empty fragment
            2 => len,                        // trailing empty fragment
            _ => rng.urange(0, len),
        })
        .collect();
    cuts.sort();
    cuts
}

fn foreign_record(rng: &mut Rng, not: u8) -> Item {
    let mut t = *rng.pick(&[20u8, 21, 22, 23, 24, 0, 25, 255]);
    if t == not {
        t = if not == 21 { 23 } else { 21 };
    }
    let data = match t {
        20 => vec![1],
        21 => vec![rng.range(1, 2) as u8, rng.u8()],
        22 => enc::tls_message(&gen::any_handshake(rng, 60)),
        24 => enc::tls_message(&gen::heartbeat(rng, 40)),
        _ => {
            let n = rng.small_len(40);
            rng.bytes(n)
        }
    };
    Item::new("rec").int("type", t as u64).int("ver", gen::version(rng) as u64).bytes("data", &data)
}

pub fn generate(rng: &mut Rng, prop: Prop) -> Scenario {
    let mut s = Scenario::new("defrag");
    let hostile = prop == Prop::C01 && rng.chance(1, 2);
    let via_stream = rng.chance(1, 3);
    s.push(Item::new("knob").int("via_stream", via_stream as u64).int("hostile", hostile as u64));

    // swarm: enabled fault kinds for this run
    let f_empty = rng.chance(1, 2);
    let f_foreign = rng.chance(1, 2);
    let f_dup = rng.chance(1, 4);
    let f_reset = rng.chance(1, 3);
    let f_nocopy = rng.chance(1, 2);
    let f_malformed = rng.chance(1, 3);
    let f_oversize = rng.chance(1, 1500);

    let groups = rng.urange(1, 5 * crate::prng::depth());
    let mut gid = 0u64;
    for _ in 0..groups {
        gid += 1;
        let ver = gen::version(rng) as u64;
        let ctype: u8 = match rng.below(10) {
            0..=5 => 22,
            6 => 24,
            7 => 23,
            8 => *rng.pick(&[20u8, 21]),
            _ => gen::content_type_any(rng),
        };
        // payload
        let mut payload = Vec::new();
        match ctype {
            22 => {
                let n = rng.urange(1, 3);
                let big = rng.chance(1, 30);
                if f_malformed && rng.chance(1, 4) {
                    // a complete but malformed FIRST message (unknown type, or a body at odds with
                    // its own inner lengths): the unsplit payload parses to an error, and the
                    // fragment completing it must return that error and end the defragmentation
                    let blen = rng.urange(1, 60);
                    let body = rng.bytes(blen);
                    let t = *rng.pick(&[0x63u8, 0x0b, 0x01, 0x02, 0x0d, 0x06]);
                    payload.extend_from_slice(&[t, 0, 0, blen as u8]);
                    payload.extend_from_slice(&body);
                    if t == 0x0b {
                        // certificate list announcing more than the message holds
                        let at = payload.len() - blen;
                        payload[at] = 0x7f;
                    }
                }
                for _ in 0..n {
                    let budget = if big { rng.urange(2000, 90000) } else { rng.urange(8, 200) };
                    payload.extend(enc::tls_message(&gen::any_handshake(rng, budget)));
                }
                if f_malformed && rng.chance(1, 2) {
                    // constructively malformed tail: unknown type, or a cut-short message
                    if rng.chance(1, 2) {
                        payload.extend_from_slice(&[0x63, 0, 0, 1, 0xaa]);
                    } else {
                        payload.extend_from_slice(&[0x0e, 0, 0, 9, 1, 2]);
                    }
                }
            }
            24 => payload = enc::tls_message(&gen::heartbeat(rng, 300)),
            23 => payload = enc::tls_message(&gen::appdata(rng, 300)),
            20 => payload = vec![1; rng.urange(1, 3)],
            21 => {
                for _ in 0..rng.urange(1, 3) {
                    payload.extend(enc::tls_message(&gen::alert(rng)));
                }
            }
            _ => {
                let n = rng.small_len(60);
                payload = rng.bytes(n);
            }
        }
        if hostile && rng.chance(1, 2) && !payload.is_empty() {
            // hostile channel: corrupt the payload before it reaches the record layer
            for _ in 0..rng.urange(1, 3) {
                let i = rng.usize_below(payload.len());
                payload[i] ^= 1 << rng.below(8);
            }
        }
        let k = match rng.below(6) {
            0 => 1,
            1 => 2,
            2 => 3,
            _ => rng.urange(1, 12 * crate::prng::depth()),
        };
        let mut cuts = cut_points(rng, payload.len(), k);
        if !f_empty {
            cuts.retain(|&c| c != 0 && c != payload.len());
            cuts.dedup();
        }
        let mut bounds = vec![0usize];
        bounds.extend(cuts);
        bounds.push(payload.len());
        // a record holds at most 2^14+256 bytes: larger pieces are cut again
        let mut fine = vec![0usize];
        for w in bounds.windows(2) {
            let mut a = w[0];
            while w[1] - a > 16640 {
                a += *rng.pick(&[16640usize, 16384, 9000]);
                fine.push(a);
            }
            fine.push(w[1]);
        }
        let bounds = fine;
        // records above the record cap only in direct mode
        let n = bounds.len() - 1;
        let mut clean = true;
        let mut ops: Vec<Item> = Vec::new();
        let mut reset_after = false;
        if f_nocopy && n == 1 && ctype == 22 && payload.len() >= 4 && rng.chance(1, 4) {
            // parse_record_nocopy on a truncated record, then parse_record on a DIFFERENT record
            // that happens to carry the same header (type, version, length)
            let mut probe = vec![*rng.pick(&[1u8, 2, 11, 12, 16]), 0, (payload.len() >> 8) as u8 | 1, payload.len() as u8];
            probe.extend(rng.bytes(payload.len() - 4));
            ops.push(Item::new("nocopy").int("type", 22).int("ver", ver).bytes("data", &probe));
        }
        for i in 0..n {
            let frag = &payload[bounds[i]..bounds[i + 1]];
            let mut it = Item::new("rec").int("type", ctype as u64).int("ver", ver).bytes("data", frag);
            if !via_stream && rng.chance(1, 40) {
                // a TlsRawRecord built by hand: header length field disagreeing with the data
                it = it.int("hdrlen", *rng.pick(&[0u64, 1, 2, 3, 65535, 16640]));
                clean = false;
                reset_after = true;
            }
            it = it.int("_g", gid).int("_gk", i as u64).int("_gn", n as u64);
            ops.push(it);
            if reset_after {
                // the model is suspended after an inconsistent hand-built record: a consumer reset
                // brings the rest of the history back under the model
                if rng.chance(2, 3) {
                    ops.push(Item::new("reset"));
                }
                reset_after = false;
            }
            if i + 1 < n && f_empty && rng.chance(1, 40) {
                // a long run of empty same-type fragments in the middle of the split
                ops.push(Item::new("rec").int("type", ctype as u64).int("ver", ver).bytes("data", &[]).int("rep", *rng.pick(&[31u64, 32, 33, 34, 64, 65, 100, 255, 256, 257, 300])));
                clean = false;
            }
            if i + 1 < n {
                if f_foreign && rng.chance(1, 4) {
                    ops.push(foreign_record(rng, ctype));
                }
                if f_nocopy && rng.chance(1, 6) {
                    let mut it = foreign_record(rng, 0);
                    it.kind = "nocopy".into();
                    ops.push(it);
                }
                if f_dup && rng.chance(1, 8) {
                    // duplicated record: the group is no longer a clean split
                    let d = ops[ops.len() - 1].clone();
                    ops.push(d);
                    clean = false;
                }
                if f_reset && rng.chance(1, 10) {
                    ops.push(Item::new("reset"));
                    clean = false;
                }
            }
        }
        if !clean {
            for o in ops.iter_mut() {
                o.remove("_g");
                o.remove("_gk");
                o.remove("_gn");
            }
        }
        for o in ops {
            s.push(o);
        }
        // between groups
        if f_nocopy && rng.chance(1, 3) {
            let mut it = foreign_record(rng, 0);
            it.kind = "nocopy".into();
            s.push(it);
        }
        if f_reset && rng.chance(1, 4) {
            s.push(Item::new("reset"));
        }
    }
    if rng.chance(1, 25) {
        // announce-lie: a short first fragment announcing a message of up to 16 MiB, then ordinary traffic
        let mut first = vec![*rng.pick(&[0x0bu8, 0x01, 0x14, 0x02]), *rng.pick(&[0xffu8, 0xc0, 0xa1, 0x80]), rng.u8(), rng.u8()];
        let n = rng.small_len(40);
        first.extend(rng.bytes(n));
        s.push(Item::new("rec").int("type", 22).int("ver", 0x0303).bytes("data", &first).int("_lie", 1));
        for _ in 0..rng.urange(0, 3) {
            let n = rng.small_len(200);
            s.push(Item::new("rec").int("type", 22).int("ver", 0x0303).bytes("data", &rng.bytes(n)));
        }
        if rng.chance(1, 2) {
            s.push(Item::new("reset"));
        }
    }
    if rng.chance(1, 400) {
        // a heartbeat message announcing the maximum payload, fed in record-sized chunks: the
        // accumulated length crosses 2^16 (the pseudo-header's u16 length cannot hold it)
        let mut first = vec![*rng.pick(&[1u8, 2]), 0xff, 0xff];
        let fl = rng.urange(0, 40);
        first.extend(rng.bytes(fl));
        s.push(Item::new("rec").int("type", 24).int("ver", 0x0303).bytes("data", &first));
        let chunk = *rng.pick(&[16384u64, 16000, 9000, 16640]);
        s.push(Item::new("rec").int("type", 24).int("ver", 0x0303).int("fill", rng.u8() as u64).int("n", chunk).int("rep", rng.range(4, 9)));
        if rng.chance(1, 2) {
            s.push(Item::new("reset"));
        }
    }
    if rng.chance(1, 8000) {
        // a message of almost 10 MiB that COMPLETES (a Finished-typed opaque body, or a certificate
        // whose body does not parse: either way the defragmentation ends), then - without reset() -
        // a new fragmented message: "after a completed message it behaves like a fresh parser"
        let chunk = *rng.pick(&[16384usize, 16640, 16000]);
        let k = (MAX_DATA - 1 - 16 - rng.urange(0, 40000)) / chunk;
        let body = 12 + k * chunk;
        let t = *rng.pick(&[0x14u8, 0x14, 0x0b, 0x10]);
        let mut first = vec![t, (body >> 16) as u8, (body >> 8) as u8, body as u8];
        first.extend(rng.bytes(12));
        s.push(Item::new("rec").int("type", 22).int("ver", 0x0303).bytes("data", &first));
        s.push(Item::new("rec").int("type", 22).int("ver", 0x0303).int("fill", rng.u8() as u64).int("n", chunk as u64).int("rep", k as u64));
        // the next message, again fragmented: a first fragment of record size, then its rest
        let l2 = rng.urange(17000, 32000);
        let mut f2 = vec![0x14u8, (l2 >> 16) as u8, (l2 >> 8) as u8, l2 as u8];
        f2.extend(rng.bytes(16000));
        s.push(Item::new("rec").int("type", 22).int("ver", 0x0303).bytes("data", &f2));
        s.push(Item::new("rec").int("type", 23).int("ver", 0x0303).bytes("data", &[1, 2, 3]));
        s.push(Item::new("rec").int("type", 22).int("ver", 0x0303).int("fill", 9).int("n", (l2 - 16000) as u64));
    }
    if f_oversize {
        // an unfinished handshake message fed until the 10 MiB bound, then some more
        let mut first = vec![0x0b, 0xff, 0xff, 0xff];
        first.extend(rng.bytes(12));
        s.push(Item::new("rec").int("type", 22).int("ver", 0x0303).bytes("data", &first));
        let chunk = *rng.pick(&[16384usize, 16640, 16000, 9000]);
        // stay just below the cap, let a cap-crossing FOREIGN record arrive (must be refused for its
        // type, not its size), then cross the cap with same-type records
        let below = (MAX_DATA - 1 - first.len()) / chunk;
        let d = rng.urange(0, 2).min(below);
        let fill = rng.u8() as u64;
        s.push(Item::new("rec").int("type", 22).int("ver", 0x0303).int("fill", fill).int("n", chunk as u64).int("rep", (below - d) as u64));
        if rng.chance(2, 3) {
            let ft = *rng.pick(&[23u64, 24, 21, 20, 0x55]);
            s.push(Item::new("rec").int("type", ft).int("ver", 0x0303).int("fill", 1).int("n", chunk as u64));
        }
        if rng.chance(1, 3) {
            let mut it = foreign_record(rng, 0);
            it.kind = "nocopy".into();
            s.push(it);
        }
        if d == 0 && rng.chance(1, 2) {
            // hand-built records near the cap whose header length disagrees with the data: the limit
            // is about the bytes actually accumulated
            s.push(Item::new("rec").int("type", 22).int("ver", 0x0303).int("fill", fill).int("n", chunk as u64).int("hdrlen", 0));
            s.push(Item::new("rec").int("type", 22).int("ver", 0x0303).int("fill", fill).int("n", 64).int("hdrlen", 16640));
        }
        // keep feeding after the refusal: a peer does not stop because the monitor said TooLarge
        let after = if rng.chance(1, 2) { rng.urange(400, 700) } else { rng.urange(1, 3) };
        s.push(Item::new("rec").int("type", 22).int("ver", 0x0303).int("fill", fill).int("n", chunk as u64).int("rep", (d + after) as u64));
        if rng.chance(1, 2) {
            // a small fragment that still fits after larger ones were refused
            let room = MAX_DATA.saturating_sub(first.len() + (below - d) * chunk + d * chunk);
            let n = room.min(rng.urange(1, 400));
            s.push(Item::new("rec").int("type", 22).int("ver", 0x0303).int("fill", 7).int("n", n as u64));
        }
        s.push(Item::new("rec").int("type", 21).int("ver", 0x0303).bytes("data", &[2, 40]));
        s.push(Item::new("rec").int("type", 22).int("ver", 0x0303).bytes("data", &rng.bytes(5)));
        if rng.chance(1, 2) {
            s.push(Item::new("reset"));
            s.push(Item::new("rec").int("type", 22).int("ver", 0x0303).bytes("data", &enc::tls_message(&gen::any_handshake(rng, 40))));
        }
    }
    s
}

// ---------------------------------------------------------------- Phase B

#[derive(Clone, Debug, PartialEq)]
struct Summary {
    out: Outcome,
    msgs: Vec<Item>,
    rem: Vec<u8>,
}

impl Summary {
    fn show(&self) -> String {
        if self.out.is_ok() {
            format!("Ok({} msgs [{}], rem {} bytes)", self.msgs.len(), val::clip(&self.msgs.iter().map(|m| m.kind.clone()).collect::<Vec<_>>().join(",")), self.rem.len())
        } else {
            self.out.show()
        }
    }
}

fn summarize<'a>(r: IResult<&'a [u8], Vec<TlsMessage<'a>>>, slices: &mut Slices) -> Summary {
    let (out, v) = split(r);
    match v {
        Some((rem, msgs)) => crate::guard::unmetered(|| {
            visit::messages(slices, &msgs);
            visit::push(slices, rem, "remainder");
            // Debug formatting of every returned value runs under the same catch_unwind (C01)
            let _ = format!("{:?}", msgs);
            Summary { out, msgs: msgs.iter().map(val::msg_to_item).collect(), rem: rem.to_vec() }
        }),
        None => Summary { out, msgs: Vec::new(), rem: Vec::new() },
    }
}

/// the real one-shot parser as sub-oracle of the model, with the nocopy mapping
fn one(ctx: &mut Ctx, data: &[u8], hdr: &TlsRecordHeader) -> Option<Summary> {
    let mut sl = Slices::new();
    ctx.call("parse_tls_record_with_header", data.len(), 0, || summarize(parse_tls_record_with_header(data, hdr), &mut sl))
}

/// The statement names the error kind of three refusals (Tag, TooLarge, NonEmpty) and says the
/// completing call "returns exactly what parsing the unsplit payload returns"; which kind an idle
/// parser reports for a record it rejects on its own is not stated.
fn kind_matters(expected: &Outcome, completing_call: bool) -> bool {
    completing_call || matches!(expected.kind, Some(ErrorKind::Tag) | Some(ErrorKind::TooLarge) | Some(ErrorKind::NonEmpty))
}

fn is_complete_code(o: &Outcome) -> bool {
    o.is_rejection() && o.kind == Some(ErrorKind::Complete)
}

struct Model {
    buf: Vec<u8>,
    cur: Option<u8>,
}

fn first_msg_end(ctype: u8, p: &[u8]) -> Option<usize> {
    match ctype {
        22 if p.len() >= 4 => Some(4 + ((p[1] as usize) << 16 | (p[2] as usize) << 8 | p[3] as usize)),
        24 if p.len() >= 3 => Some(3 + ((p[1] as usize) << 8 | p[2] as usize)),
        _ => None,
    }
}

struct Group {
    id: u64,
    next: u64,
    n: u64,
    ctype: u8,
    ver: u16,
    concat: Vec<u8>,
    cum: Vec<usize>,
    ok: bool,
}

pub fn execute(scn: &Scenario, ctx: &mut Ctx) {
    let knob = scn.knob().cloned().unwrap_or_else(|| Item::new("knob"));
    let via_stream = knob.u("via_stream") == 1;
    let mut parser = TlsRecordsParser::default();
    let mut model = Model { buf: Vec::new(), cur: None };
    let mut desync = false;
    let mut group: Option<Group> = None;
    let mut opno = 0u64;
    let mut recs_seen = 0u32;
    let mut completed = 0u64;
    let mut n_model = 0u64;
    let mut n_prov = 0u64;

    for it in &scn.items {
        let reps = it.u_opt("rep").unwrap_or(1).min(2000);
        match it.kind.as_str() {
            "knob" => continue,
            "reset" => {
                ctx.fault("reset");
                ctx.call("TlsRecordsParser::reset", 0, MAX_DATA, || parser.reset());
                model = Model { buf: Vec::new(), cur: None };
                desync = false;
                group = None;
                ctx.log(1, 0, 0);
                ctx.trace(1, 0, 0);
                cell(ctx, &model, 2, 0);
                check_state(ctx, &parser, &model, opno, true);
                opno += 1;
                continue;
            }
            "rec" | "nocopy" => {}
            _ => continue,
        }
        let nocopy = it.kind == "nocopy";
        let ctype = it.u("type") as u8;
        let ver = it.u("ver") as u16;
        let owned: Vec<u8>;
        let data: &[u8] = if it.has("fill") {
            owned = vec![it.u("fill") as u8; (it.u("n") as usize).min(70_000)];
            &owned
        } else {
            it.b("data")
        };
        if reps > 1 {
            ctx.fault("oversize-stream");
        }
        if it.has("_lie") {
            ctx.fault("announce-lie");
        }
        for _ in 0..reps {
            recs_seen += 1;
            if recs_seen >= 2 {
                ctx.nontrivial = true;
            }
            // the record as the caller holds it: either built directly, or framed on the wire
            // and obtained from the real parse_tls_raw_record (whole pipeline)
            let wire: Vec<u8>;
            let hdr_len = it.u_opt("hdrlen").unwrap_or(data.len() as u64) as u16;
            let record: TlsRawRecord = if via_stream && data.len() <= 16640 && !it.has("hdrlen") {
                wire = enc::tls_record(ctype, ver, data.len() as u64, data);
                match ctx.call("parse_tls_raw_record", wire.len(), 0, || parse_tls_raw_record(&wire)) {
                    Some(Ok((_, r))) => r,
                    _ => {
                        ctx.violate(Prop::C07, "defrag-model/raw-record-refused", || format!("op {}: parse_tls_raw_record refused a well-framed record of {} bytes", opno, data.len()));
                        continue;
                    }
                }
            } else {
                val::mk_raw_record(val::mk_header(ctype, ver, hdr_len), data)
            };
            let rec_base = record.data.as_ptr() as usize;
            let rec_len = record.data.len();
            let hdr = record.hdr;

            if hdr_len as usize != data.len() || data.len() > 16640 {
                // not a record parse_tls_raw_record can produce (header length at odds with the data, or
                // more data than the record-length cap allows): the statement does not say how such a
                // hand-built record is treated; only C01's no-panic / heap invariants apply until reset()
                desync = true;
            }
            // ---- model step (uses the real one-shot parser as sub-oracle)
            let before_cur = model.cur;
            // (the heap allowance is computed from what the real parser holds, not from the model, which
            // is suspended while desynchronised)
            let before_len = parser.verif_defrag_buffer().len();
            let before_sum = {
                let b = parser.verif_defrag_buffer();
                mix_bytes(b.len() as u64, &b[..b.len().min(1 << 16)])
            };
            let real_idle_before = !parser.defrag_in_progress();
            let mut from_buffer = false;
            let mut alert_ccs_truncated = false;
            let expected: Option<Summary> = if desync {
                None
            } else if nocopy {
                if model.cur.is_some() {
                    Some(Summary { out: Outcome::failure(ErrorKind::NonEmpty), msgs: vec![], rem: vec![] })
                } else {
                    one(ctx, record.data, &hdr).map(|mut e| {
                        if is_complete_code(&e.out) {
                            e.out = Outcome::incomplete_unknown();
                        }
                        e
                    })
                }
            } else if model.cur.is_none() {
                if ctype == 20 || ctype == 21 {
                    one(ctx, record.data, &hdr).map(|mut e| {
                        if is_complete_code(&e.out) || e.out.is_incomplete() {
                            e.out = Outcome::incomplete_unknown();
                            alert_ccs_truncated = true;
                        }
                        e
                    })
                } else {
                    match one(ctx, record.data, &hdr) {
                        Some(e) if e.out.is_ok() => Some(e),
                        Some(e) if e.out.is_incomplete() || is_complete_code(&e.out) => {
                            model.cur = Some(ctype);
                            model.buf.clear();
                            model.buf.extend_from_slice(record.data);
                            Some(Summary { out: Outcome::incomplete_unknown(), msgs: vec![], rem: vec![] })
                        }
                        other => other,
                    }
                }
            } else if model.cur != Some(ctype) {
                Some(Summary { out: Outcome::error(ErrorKind::Tag), msgs: vec![], rem: vec![] })
            } else if model.buf.len() + record.data.len() >= MAX_DATA {
                Some(Summary { out: Outcome::error(ErrorKind::TooLarge), msgs: vec![], rem: vec![] })
            } else {
                model.buf.extend_from_slice(record.data);
                if ctype == 24 && model.buf.len() > 65535 {
                    // deliberately unconstrained corner: no single-record counterpart exists
                    desync = true;
                    None
                } else {
                    let mut h2 = hdr;
                    h2.len = model.buf.len() as u16;
                    let mb = std::mem::take(&mut model.buf);
                    let e = one(ctx, &mb, &h2);
                    model.buf = mb;
                    e.map(|mut e| {
                        if e.out.is_ok() {
                            model.cur = None;
                            from_buffer = true;
                        } else if is_complete_code(&e.out) {
                            e.out = Outcome::incomplete_unknown();
                        } else if !e.out.is_incomplete() {
                            // "the last returns exactly what parsing the unsplit payload returns and
                            // ends defragmentation": also when that result is an error
                            model.cur = None;
                        }
                        e
                    })
                }
            };

            // ---- the real call
            let mut sl = Slices::new();
            let entry = if nocopy { "TlsRecordsParser::parse_record_nocopy" } else { "TlsRecordsParser::parse_record" };
            let ilen = record.data.len() + before_len;
            // retained-state allowance: the documented 10 MiB buffer, or (near the cap) the
            // transient old+new copies of amortised Vec doubling, whichever is larger
            let extra = MAX_DATA.max(2 * ilen);
            let rec2 = record.clone();
            let got = if nocopy {
                ctx.call(entry, ilen, extra, || summarize(parser.parse_record_nocopy(rec2), &mut sl))
            } else {
                ctx.call(entry, ilen, extra, || summarize(parser.parse_record(rec2), &mut sl))
            };
            let got = match got {
                Some(g) => g,
                None => {
                    // unwound: state of the real parser is whatever it is; re-sync on next reset
                    desync = true;
                    opno += 1;
                    continue;
                }
            };
            ctx.log(2 + nocopy as u64, got.out.code(), mix_bytes(got.msgs.len() as u64, &got.rem));
            if from_buffer && got.out.is_ok() {
                completed += 1;
            }
            ctx.trace(2 + nocopy as u64 + ((ctype as u64) << 4), got.out.code() & 0xfffff, record.data.len());
            cell(ctx, &Model { buf: Vec::new(), cur: before_cur }, nocopy as u32, outcome_cell(&got.out));
            if record.data.is_empty() {
                ctx.fault("empty-fragment");
            }
            if before_cur.is_some() && before_cur != Some(ctype) {
                ctx.fault("foreign-type-interleave");
            }
            if nocopy {
                ctx.fault("nocopy-call");
            }
            if before_cur.is_some() && before_cur == Some(ctype) && !nocopy {
                ctx.fault("fragment");
            }

            // ---- refinement: call-by-call comparison
            if let Some(exp) = &expected {
                n_model += 1;
                if got.out.is_ok() {
                    n_prov += 1;
                }
                // (the statement names the ErrorKind of the Tag / TooLarge refusals, and says "a NonEmpty
                // failure" for parse_record_nocopy)
                let nonempty = exp.out.kind == Some(ErrorKind::NonEmpty);
                let same_class = got.out.class == exp.out.class || (!nonempty && got.out.is_rejection() && exp.out.is_rejection());
                // a truncated / empty alert or ChangeCipherSpec record on an idle parser: the statement's
                // general rule gives Incomplete (and accumulation), the record layer's rule (C03) a
                // rejection; either is within the statements
                let either = alert_ccs_truncated && (got.out.is_incomplete() || got.out.is_rejection());
                if either {
                    ctx.count("oracle/truncated_alert_ccs_either_answer", 1);
                } else if !same_class {
                    ctx.violate(Prop::C07, "defrag-model/result-class", || {
                        format!("op {} ({} type={} len={}): model expects {}, parser answered {}", opno, it.kind, ctype, rec_len, exp.show(), got.show())
                    });
                } else if got.out.kind != exp.out.kind && kind_matters(&exp.out, before_cur == Some(ctype) && !nocopy) {
                    ctx.violate(Prop::C07, "defrag-model/error-kind", || {
                        format!("op {} ({} type={} len={}): model expects {}, parser answered {}", opno, it.kind, ctype, rec_len, exp.show(), got.show())
                    });
                } else if got.msgs != exp.msgs {
                    ctx.violate(Prop::C07, "defrag-model/messages", || {
                        let i = got.msgs.iter().zip(exp.msgs.iter()).position(|(a, b)| a != b).unwrap_or(got.msgs.len().min(exp.msgs.len()));
                        format!("op {}: message lists differ at index {} (got {} msgs, model {} msgs)", opno, i, got.msgs.len(), exp.msgs.len())
                    });
                } else if got.rem != exp.rem {
                    ctx.violate(Prop::C07, "defrag-model/remainder", || {
                        format!("op {}: remainder differs (got {} bytes, model {} bytes)", opno, got.rem.len(), exp.rem.len())
                    });
                }
                // refusals leave the state unchanged (checked through in-progress + buffer below)
                // provenance (C06 item 4 / C07 "no byte of earlier records")
                if got.out.is_ok() && !from_buffer && !nocopy {
                    // "a record that parses on its own is returned without buffering": the result of the
                    // fast path refers to the caller's record (where a completed defragmentation keeps its
                    // bytes is the implementation's business; its CONTENT is compared above)
                    let b = parser.verif_defrag_buffer();
                    let changed = mix_bytes(b.len() as u64, &b[..b.len().min(1 << 16)]) != before_sum;
                    if rec_len > 0 && changed && (b.len() == before_len + rec_len || b == record.data) && b.ends_with(record.data) {
                        ctx.violate(Prop::C07, "defrag-model/buffered-on-fast-path", || format!("op {}: record of {} bytes parsed on its own, but it was copied into the defragmentation buffer ({} bytes before the call, {} after)", opno, rec_len, before_len, b.len()));
                    }
                    if let Some((_, label, off, l)) = visit::first_outside(&sl, rec_base, rec_len) {
                        let _ = off;
                        ctx.violate(Prop::C07, "defrag-model/buffered-on-fast-path", || {
                            format!("op {}: record parsed on its own, but slice `{}` ({} bytes) of the result does not alias the caller's record", opno, label, l)
                        });
                    }
                }
            }
            if alert_ccs_truncated && parser.defrag_in_progress() {
                // the code documents that alerts / ChangeCipherSpec are never defragmented, the statement
                // does not: follow whichever the implementation does
                model.cur = Some(ctype);
                model.buf.clear();
                model.buf.extend_from_slice(record.data);
            }
            if !desync {
                check_state(ctx, &parser, &model, opno, model.buf.len() <= 65536 || opno % 64 == 0);
            }
            // cap: for records within the record-length cap the buffer never reaches 10 MiB
            if rec_len <= 16640 && parser.verif_defrag_buffer().len() >= MAX_DATA {
                let l = parser.verif_defrag_buffer().len();
                ctx.violate(Prop::C07, "defrag-model/cap", || format!("op {}: defragmentation buffer holds {} bytes (>= 10 MiB)", opno, l));
                // C01: retained heap is bounded by the documented 10 MiB buffer
                ctx.violate(Prop::C01, "heap/defragmenter-buffer", || format!("op {}: after a call fed with a {}-byte record the defragmenter retains {} bytes (documented bound: 10 MiB)", opno, rec_len, l));
            }

            // ---- history-level oracle on intact, cleanly split groups (independent of the model's state)
            if desync {
                group = None;
            } else if !nocopy {
                history_step(ctx, &mut group, it, ctype, ver, record.data, &got, &parser, opno, if real_idle_before { None } else { Some(ctype) });
            }
            opno += 1;
        }
    }
    ctx.count("oracle/model_comparisons", n_model);
    ctx.count("oracle/provenance_audits", n_prov);
    ctx.count("operations", opno);
    ctx.count("defragmentations_completed", completed);
}

fn outcome_cell(o: &Outcome) -> u32 {
    match o.class {
        Class::Ok => 0,
        Class::Incomplete => 1,
        Class::Error => match o.kind {
            Some(ErrorKind::Tag) => 2,
            Some(ErrorKind::TooLarge) => 3,
            Some(ErrorKind::Complete) => 4,
            _ => 5,
        },
        Class::Failure => 6,
    }
}

pub const CELL_STATES: u32 = 6; // idle, in-progress(22), in-progress(23), in-progress(24), in-progress(other), -
pub const CELL_OPS: u32 = 3; // rec, nocopy, reset
pub const CELL_OUT: u32 = 7;

fn cell(ctx: &mut Ctx, m: &Model, op: u32, out: u32) {
    let st = match m.cur {
        None => 0,
        Some(22) => 1,
        Some(23) => 2,
        Some(24) => 3,
        Some(_) => 4,
    };
    ctx.cell("defrag", (st * CELL_OPS + op) * CELL_OUT + out);
}

pub fn cell_name(id: u32) -> String {
    let out = id % CELL_OUT;
    let op = (id / CELL_OUT) % CELL_OPS;
    let st = id / CELL_OUT / CELL_OPS;
    let st = ["idle", "in-progress(handshake)", "in-progress(appdata)", "in-progress(heartbeat)", "in-progress(other)"].get(st as usize).copied().unwrap_or("?");
    let op = ["parse_record", "parse_record_nocopy", "reset"][op as usize];
    let out = ["Ok", "Incomplete", "Error(Tag)", "Error(TooLarge)", "Error(Complete)", "Error(other)", "Failure"][out as usize];
    format!("{}/{}/{}", st, op, out)
}

fn check_state(ctx: &mut Ctx, parser: &TlsRecordsParser, model: &Model, opno: u64, full: bool) {
    let prog = parser.defrag_in_progress();
    if prog != model.cur.is_some() {
        ctx.violate(Prop::C07, "defrag-model/in-progress", || {
            format!("after op {}: defrag_in_progress() = {}, model says {}", opno, prog, model.cur.is_some())
        });
    }
    if model.cur.is_none() {
        // what the parser keeps in its buffer while idle is its own business (results of a completed
        // defragmentation borrow it; stale bytes are excluded by the provenance audit of later results)
        return;
    }
    let buf = parser.verif_defrag_buffer();
    if buf.is_empty() && !model.buf.is_empty() {
        // an implementation that stores fragments differently (chunks, a second buffer) shows nothing
        // through this accessor; results and refusals are what the statement constrains
        return;
    }
    if buf.len() != model.buf.len() {
        let l = buf.len();
        ctx.violate(Prop::C07, "defrag-model/buffer-len", || format!("after op {}: buffer holds {} bytes, model {} bytes", opno, l, model.buf.len()));
    } else if full && buf != &model.buf[..] {
        ctx.violate(Prop::C07, "defrag-model/stale-bytes", || format!("after op {}: buffer content differs from the fragments accumulated since defragmentation started", opno));
    }
}

#[allow(clippy::too_many_arguments)]
fn history_step(ctx: &mut Ctx, group: &mut Option<Group>, it: &Item, ctype: u8, ver: u16, data: &[u8], got: &Summary, parser: &TlsRecordsParser, opno: u64, before_cur: Option<u8>) {
    let (g, k, n) = match (it.u_opt("_g"), it.u_opt("_gk"), it.u_opt("_gn")) {
        (Some(g), Some(k), Some(n)) if !it.has("rep") => (g, k, n),
        _ => {
            // a foreign record in the middle of a group is refused without state change, so it
            // does not break the group; a same-type unannotated record does
            if let Some(gr) = group {
                if ctype == gr.ctype {
                    gr.ok = false;
                }
            }
            return;
        }
    };
    if k == 0 {
        *group = Some(Group { id: g, next: 0, n, ctype, ver, concat: Vec::new(), cum: Vec::new(), ok: before_cur.is_none() });
    }
    let gr = match group {
        Some(gr) if gr.id == g && gr.next == k && gr.n == n && gr.ctype == ctype && gr.ver == ver => gr,
        _ => {
            *group = None;
            return;
        }
    };
    gr.next += 1;
    gr.concat.extend_from_slice(data);
    gr.cum.push(gr.concat.len());
    if !gr.ok || n < 2 || (ctype != 22 && ctype != 24) {
        return;
    }
    let last = k + 1 == n;
    if !last {
        // every call but the last answers Incomplete with defrag_in_progress(), provided the first
        // message is not yet complete
        let done = first_msg_end(ctype, &gr.concat).map(|e| e <= gr.concat.len()).unwrap_or(false);
        if done {
            gr.ok = false; // first message completed early: not the situation the property describes
            return;
        }
        if !got.out.is_incomplete() || !parser.defrag_in_progress() {
            let prog = parser.defrag_in_progress();
            ctx.violate(Prop::C07, "defrag-history/not-incomplete", || {
                format!("op {}: fragment {}/{} of a split payload (first message still incomplete) answered {} with defrag_in_progress()={}", opno, k + 1, n, got.show(), prog)
            });
            gr.ok = false;
        }
        return;
    }
    // last fragment: the first message must complete exactly here
    let total = gr.concat.len();
    match first_msg_end(ctype, &gr.concat) {
        Some(e) if e <= total && (total <= 65535 || ctype == 22) => {
            let hdr = val::mk_header(ctype, ver, total as u16);
            let concat = std::mem::take(&mut gr.concat);
            let whole = one(ctx, &concat, &hdr);
            ctx.count("oracle/split_groups_checked_against_unsplit_payload", 1);
            if let Some(whole) = whole {
                let same = whole.out.class == got.out.class && whole.out.kind == got.out.kind && whole.msgs == got.msgs && whole.rem == got.rem;
                let same = same || (is_complete_code(&whole.out) && got.out.is_incomplete());
                if !same {
                    ctx.violate(Prop::C07, "defrag-history/last-differs", || {
                        format!("op {}: last fragment of a {}-way split returned {}, parsing the unsplit {}-byte payload returns {}", opno, n, got.show(), total, whole.show())
                    });
                } else if !got.out.is_incomplete() && parser.defrag_in_progress() {
                    ctx.violate(Prop::C07, "defrag-history/not-ended", || format!("op {}: defragmentation still in progress after the fragment that completed the first message (it returned {})", opno, got.show()));
                }
            }
        }
        _ => {}
    }
    *group = None;
}
