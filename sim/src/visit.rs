//! Slice provenance walker: every `&[u8]` reachable from a returned value, as (address, length,
//! label). Addresses are only ever compared against buffer ranges (relational checks) and
//! never enter a decision, a log or a digest.

use tls_parser::*;

pub type Slices = Vec<(usize, usize, &'static str)>;

#[inline]
pub fn push(out: &mut Slices, s: &[u8], label: &'static str) {
    out.push((s.as_ptr() as usize, s.len(), label));
}

fn push_opt(out: &mut Slices, s: Option<&[u8]>, label: &'static str) {
    if let Some(s) = s {
        push(out, s, label);
    }
}

pub fn cke(out: &mut Slices, c: &TlsClientKeyExchangeContents) {
    match c {
        TlsClientKeyExchangeContents::Dh(b) => push(out, b, "cke.dh"),
        TlsClientKeyExchangeContents::Ecdh(p) => push(out, p.point, "cke.ecdh"),
        TlsClientKeyExchangeContents::Unknown(b) => push(out, b, "cke.unknown"),
        #[allow(unreachable_patterns)]
        _ => {}
    }
}

fn server_hello(out: &mut Slices, s: &TlsServerHelloContents) {
    push(out, s.random, "sh.random");
    push_opt(out, s.session_id, "sh.sid");
    push_opt(out, s.ext, "sh.ext");
}

fn certificate(out: &mut Slices, c: &TlsCertificateContents) {
    for x in &c.cert_chain {
        push(out, x.data, "cert.data");
    }
}

fn cert_request(out: &mut Slices, c: &TlsCertificateRequestContents) {
    for x in &c.unparsed_ca {
        push(out, x, "certreq.ca");
    }
}

pub fn handshake(out: &mut Slices, h: &TlsMessageHandshake) {
    match h {
        TlsMessageHandshake::HelloRequest | TlsMessageHandshake::EndOfEarlyData | TlsMessageHandshake::KeyUpdate(_) => {}
        TlsMessageHandshake::ClientHello(c) => {
            push(out, c.random, "ch.random");
            push_opt(out, c.session_id, "ch.sid");
            push_opt(out, c.ext, "ch.ext");
        }
        TlsMessageHandshake::ServerHello(s) => server_hello(out, s),
        TlsMessageHandshake::ServerHelloV13Draft18(s) => {
            push(out, s.random, "sh13.random");
            push_opt(out, s.ext, "sh13.ext");
        }
        TlsMessageHandshake::NewSessionTicket(t) => push(out, t.ticket, "nst.ticket"),
        TlsMessageHandshake::HelloRetryRequest(h) => push_opt(out, h.ext, "hrr.ext"),
        TlsMessageHandshake::Certificate(c) => certificate(out, c),
        TlsMessageHandshake::ServerKeyExchange(s) => push(out, s.parameters, "ske.params"),
        TlsMessageHandshake::CertificateRequest(c) => cert_request(out, c),
        TlsMessageHandshake::ServerDone(b) => push(out, b, "serverdone"),
        TlsMessageHandshake::CertificateVerify(b) => push(out, b, "certverify"),
        TlsMessageHandshake::ClientKeyExchange(c) => cke(out, c),
        TlsMessageHandshake::Finished(b) => push(out, b, "finished"),
        TlsMessageHandshake::CertificateStatus(s) => push(out, s.blob, "certstatus.blob"),
        TlsMessageHandshake::NextProtocol(n) => {
            push(out, n.selected_protocol, "np.proto");
            push(out, n.padding, "np.padding");
        }
        #[allow(unreachable_patterns)]
        _ => {}
    }
}

pub fn message(out: &mut Slices, m: &TlsMessage) {
    match m {
        TlsMessage::Handshake(h) => handshake(out, h),
        TlsMessage::ChangeCipherSpec | TlsMessage::Alert(_) => {}
        TlsMessage::ApplicationData(d) => push(out, d.blob, "appdata.blob"),
        TlsMessage::Heartbeat(h) => push(out, h.payload, "heartbeat.payload"),
        #[allow(unreachable_patterns)]
        _ => {}
    }
}

pub fn messages(out: &mut Slices, ms: &[TlsMessage]) {
    for m in ms {
        message(out, m);
    }
}

pub fn dtls_message(out: &mut Slices, m: &DTLSMessage) {
    match m {
        DTLSMessage::Handshake(h) => match &h.body {
            DTLSMessageHandshakeBody::HelloRequest => {}
            DTLSMessageHandshakeBody::ClientHello(c) => {
                push(out, c.random, "dch.random");
                push_opt(out, c.session_id, "dch.sid");
                push(out, c.cookie, "dch.cookie");
                push_opt(out, c.ext, "dch.ext");
            }
            DTLSMessageHandshakeBody::HelloVerifyRequest(h) => push(out, h.cookie, "hvr.cookie"),
            DTLSMessageHandshakeBody::ServerHello(s) => server_hello(out, s),
            DTLSMessageHandshakeBody::NewSessionTicket(t) => push(out, t.ticket, "nst.ticket"),
            DTLSMessageHandshakeBody::HelloRetryRequest(h) => push_opt(out, h.ext, "hrr.ext"),
            DTLSMessageHandshakeBody::Certificate(c) => certificate(out, c),
            DTLSMessageHandshakeBody::ServerKeyExchange(s) => push(out, s.parameters, "ske.params"),
            DTLSMessageHandshakeBody::CertificateRequest(c) => cert_request(out, c),
            DTLSMessageHandshakeBody::ServerDone(b) => push(out, b, "serverdone"),
            DTLSMessageHandshakeBody::CertificateVerify(b) => push(out, b, "certverify"),
            DTLSMessageHandshakeBody::ClientKeyExchange(c) => cke(out, c),
            DTLSMessageHandshakeBody::Finished(b) => push(out, b, "finished"),
            DTLSMessageHandshakeBody::CertificateStatus(s) => push(out, s.blob, "certstatus.blob"),
            DTLSMessageHandshakeBody::NextProtocol(n) => {
                push(out, n.selected_protocol, "np.proto");
                push(out, n.padding, "np.padding");
            }
            DTLSMessageHandshakeBody::Fragment(f) => push(out, f, "fragment"),
            #[allow(unreachable_patterns)]
            _ => {}
        },
        DTLSMessage::ChangeCipherSpec | DTLSMessage::Alert(_) => {}
        DTLSMessage::ApplicationData(d) => push(out, d.blob, "appdata.blob"),
        DTLSMessage::Heartbeat(h) => push(out, h.payload, "heartbeat.payload"),
        #[allow(unreachable_patterns)]
        _ => {}
    }
}

pub fn extension(out: &mut Slices, e: &TlsExtension) {
    match e {
        TlsExtension::SNI(v) => {
            for (_, n) in v {
                push(out, n, "sni.name");
            }
        }
        TlsExtension::StatusRequest(Some((_, b))) => push(out, b, "statusreq"),
        TlsExtension::EcPointFormats(b) => push(out, b, "ecpf"),
        TlsExtension::SessionTicket(b) => push(out, b, "ticket"),
        TlsExtension::KeyShareOld(b) => push(out, b, "keyshareold"),
        TlsExtension::KeyShare(b) => push(out, b, "keyshare"),
        TlsExtension::PreSharedKey(b) => push(out, b, "psk"),
        TlsExtension::Cookie(b) => push(out, b, "cookie"),
        TlsExtension::ALPN(v) => {
            for n in v {
                push(out, n, "alpn");
            }
        }
        TlsExtension::SignedCertificateTimestamp(Some(b)) => push(out, b, "sct"),
        TlsExtension::Padding(b) => push(out, b, "padding"),
        TlsExtension::OidFilters(v) => {
            for f in v {
                push(out, f.cert_ext_oid, "oid.oid");
                push(out, f.cert_ext_val, "oid.val");
            }
        }
        TlsExtension::RenegotiationInfo(b) => push(out, b, "reneg"),
        TlsExtension::EncryptedServerName { key_share, record_digest, encrypted_sni, .. } => {
            push(out, key_share, "esni.ks");
            push(out, record_digest, "esni.rd");
            push(out, encrypted_sni, "esni.sni");
        }
        TlsExtension::Grease(_, b) => push(out, b, "grease"),
        TlsExtension::Unknown(_, b) => push(out, b, "unknown"),
        // PskExchangeModes holds a Vec<u8> by design (exempt); the others hold no slice
        _ => {}
    }
}

pub fn sct(out: &mut Slices, s: &SignedCertificateTimestamp) {
    push(out, &s.id.key_id[..], "sct.logid");
    push(out, s.extensions.0, "sct.ext");
    push(out, s.signature.data, "sct.sig");
}

pub fn ec_params(out: &mut Slices, p: &ECParameters) {
    if let ECParametersContent::ExplicitPrime(e) = &p.params_content {
        push(out, e.prime_p, "ec.p");
        push(out, e.curve.a, "ec.a");
        push(out, e.curve.b, "ec.b");
        push(out, e.base.point, "ec.base");
        push(out, e.order, "ec.order");
        push(out, e.cofactor, "ec.cofactor");
    }
}

/// classify each non-empty slice against a byte range; returns the first offender
pub fn first_outside(sl: &Slices, base: usize, len: usize) -> Option<(usize, &'static str, i64, usize)> {
    for (i, (p, l, label)) in sl.iter().enumerate() {
        if *l == 0 {
            continue;
        }
        if *p < base || p + l > base + len {
            return Some((i, label, *p as i64 - base as i64, *l));
        }
    }
    None
}
